#!/usr/bin/env python3
"""C36 runner: probes + generated scripts through driver/twin under the memory
oracles, classification, evidence.  Called by /verif/bin/check.d/C36 after the
builds.  usage: run.py <quick|thorough> <seed>
exit 0 held / 1 violation / 2 inconclusive"""
import concurrent.futures as cf
import glob
import hashlib
import json
import os
import re
import subprocess
import sys
import time

OUT = "/verif/out/capi"
CAPI = "/verif/capi"
BIN = OUT + "/bin"
TWIN = OUT + "/target-twin/debug/c36twin"
ASAN_ENV = "detect_leaks=1:halt_on_error=1:abort_on_error=1:symbolize=1"
OPTS = ["empty_items", "cursor_twice", "unaligned_items", "objid_cache_eq"]
T0 = time.time()


def sh(cmd, env=None, timeout=300):
    e = dict(os.environ)
    e["RUST_BACKTRACE"] = "1"
    if env:
        e.update(env)
    try:
        p = subprocess.run(cmd, env=e, capture_output=True, timeout=timeout)
        return p.returncode, p.stdout.decode("utf-8", "replace"), p.stderr.decode("utf-8", "replace")
    except subprocess.TimeoutExpired:
        return "timeout", "", ""


def norm(s):
    s = re.sub(r"0x[0-9a-fA-F]+", "0xN", s)
    s = re.sub(r"\d+", "N", s)
    return re.sub(r"[^A-Za-z0-9_:.,()<>\- ]", "", s).strip()[:60]


def first_am_frame(text):
    m = re.search(r" in (AM[a-z][A-Za-z0-9]+) ", text) or re.search(r"(?:by|at) 0x[0-9A-Fa-f]+: (AM[a-z][A-Za-z0-9]+) ", text)
    return m.group(1) if m else "?"


def classify_stderr(tool, rc, err):
    """-> (sig, what) for a memory error / abort reported by a C-side run, or None"""
    m = re.search(r"panicked at ([^\n:]+):\d+:\d+:\n([^\n]*)", err)
    if m:
        return ("c36|panic|%s|%s" % (os.path.basename(m.group(1)), norm(m.group(2))),
                "the C API aborted: panic at %s: %s" % (m.group(1), m.group(2)))
    m = re.search(r"ERROR: AddressSanitizer: ([a-zA-Z\-]+)", err)
    if m:
        fr = first_am_frame(err[m.end():])
        return ("c36|asan|%s|%s" % (m.group(1), fr), "AddressSanitizer: %s (first API frame %s)" % (m.group(1), fr))
    if "LeakSanitizer: detected memory leaks" in err:
        fr = first_am_frame(err)
        return ("c36|leak|%s" % fr, "LeakSanitizer: memory leaked, allocated under %s" % fr)
    m = re.search(r"runtime error: ([^\n]*)", err)
    if m:
        return ("c36|ubsan|%s" % norm(m.group(1)), "UBSan: " + m.group(1))
    if tool == "memcheck" and rc == 97:
        kinds = ["Invalid read", "Invalid write", "Invalid free", "Mismatched free", "Use of uninitialised",
                 "Conditional jump", "Syscall param", "definitely lost", "indirectly lost", "Source and destination overlap"]
        for line in err.splitlines():
            for k in kinds:
                if k in line:
                    rest = err[err.index(line):]
                    fr = first_am_frame(rest)
                    tag = "leak" if "lost" in k else "memcheck"
                    return ("c36|%s|%s|%s" % (tag, k.replace(" ", "-"), fr), "valgrind memcheck: %s (first API frame %s)" % (line.split("== ")[-1], fr))
        return ("c36|memcheck|unclassified", "valgrind memcheck reported errors")
    if isinstance(rc, int) and rc < 0:
        return ("c36|signal|%d" % -rc, "the C driver died with signal %d" % -rc)
    return None


def panic_site(err):
    m = re.search(r"panicked at ([^\n:]+):(\d+):\d+", err)
    return (os.path.basename(m.group(1)), m.group(2)) if m else None


def diff_sigs(c_out, t_out):
    """line-by-line comparison of observation streams -> list of (sig, what)"""
    cl, tl = c_out.splitlines(), t_out.splitlines()
    res = []
    for a, b in zip(cl, tl):
        if a != b:
            op = (a.split(" ") + ["?", "?"])[1]
            res.append(("c36|diff|%s" % op, "C: %s  ||  Rust: %s" % (a[:300], b[:300])))
    if len(cl) != len(tl) and not res:
        res.append(("c36|diff|desync", "C printed %d observation lines, the twin %d" % (len(cl), len(tl))))
    return res


class Run:
    def __init__(self, tier, seed):
        self.tier, self.seed = tier, seed
        self.dir = "%s/run/%s-%d" % (OUT, tier, seed)
        os.makedirs(self.dir, exist_ok=True)
        for f in glob.glob(self.dir + "/*"):
            if os.path.isfile(f):
                os.unlink(f)
        self.viol = []          # (sig, what, script)
        self.inconc = []
        self.counters = dict(observations_compared=0, asan_runs=0, memcheck_runs=0, miri_runs=0, leaks=0, errors=0,
                             diffs=0, both_panicked=0, probe_runs=0, scripts_generated=0)
        self.calls = {}
        self.nontrivial = set()
        self.samples = []

    # one script through twin + selected oracles
    def run_script(self, path, asan=True, memcheck=False):
        base = path[:-7]
        res = dict(path=path, viol=[], inconc=[], obs=0, asan=0, memcheck=0, both_panicked=0, calls={})
        trc, tout, terr = sh([TWIN, path], timeout=120)
        if trc == "timeout":
            res["inconc"].append("twin timed out on %s" % path)
            return res
        runs = []
        if asan:
            runs.append(("asan", [BIN + "/cdriver-asan", path, base + ".calls"], {"ASAN_OPTIONS": ASAN_ENV, "UBSAN_OPTIONS": "print_stacktrace=1"}, 300))
        if memcheck:
            runs.append(("memcheck", ["valgrind", "-q", "--leak-check=full", "--errors-for-leak-kinds=definite,indirect",
                                      "--error-exitcode=97", "--num-callers=30", BIN + "/cdriver-plain", path], None, 900))
        for tool, cmd, env, to in runs:
            rc, out, err = sh(cmd, env, to)
            res[tool] += 1
            open("%s.%s.err" % (base, tool), "w").write(err)
            if rc == "timeout":
                res["inconc"].append("%s run timed out on %s" % (tool, path))
                continue
            if rc == 3:
                res["inconc"].append("driver harness error on %s: %s" % (path, err.strip()[-200:]))
                continue
            if tool == "memcheck" and ("valgrind: " in err and "Killed" in err or "the 'impossible' happened" in err):
                res["inconc"].append("valgrind crashed on %s" % path)
                continue
            cls = classify_stderr(tool, rc, err) if rc != 0 else None
            if trc != 0:
                # the Rust API itself panicked: agreement iff the C side aborted on the same op
                nl = len(tout.splitlines())
                if cls and cls[0].startswith("c36|panic") and len(out.splitlines()) == nl and panic_site(err) == panic_site(terr) \
                        and "/repo/rust/" in terr:
                    res["both_panicked"] += 1
                    res["obs"] += nl
                    res["viol"] += diff_sigs(out, tout)
                else:
                    res["inconc"].append("twin failed (rc=%s) on %s: %s" % (trc, path, terr.strip()[-300:]))
                continue
            if cls:
                res["viol"].append(cls)
                # observations before the abort must still agree
                n = len(out.splitlines())
                res["viol"] += diff_sigs(out, "\n".join(tout.splitlines()[:n]))
                res["obs"] += n
                continue
            if rc != 0:
                res["inconc"].append("%s driver exit %s on %s: %s" % (tool, rc, path, err.strip()[-200:]))
                continue
            res["viol"] += diff_sigs(out, tout)
            res["obs"] += len(tout.splitlines())
        try:
            for l in open(base + ".calls"):
                k, v = l.split()
                res["calls"][k] = int(v)
        except OSError:
            pass
        return res

    def absorb(self, r):
        for sig, what in r["viol"]:
            self.viol.append((sig, what, r["path"]))
        self.inconc += r["inconc"]
        c = self.counters
        c["observations_compared"] += r["obs"]
        c["asan_runs"] += r["asan"]
        c["memcheck_runs"] += r["memcheck"]
        c["both_panicked"] += r["both_panicked"]
        for k, v in r["calls"].items():
            self.calls[k] = self.calls.get(k, 0) + v

    def probes(self):
        """-> dict opt -> enabled for random scripts (a probe that fails keeps its opt off)"""
        enabled = {o: 1 for o in OPTS}
        for p in sorted(glob.glob(CAPI + "/probes/*.script")):
            name = os.path.basename(p)
            dst = "%s/probe-%s" % (self.dir, name)
            open(dst, "w").write(open(p).read())
            r = self.run_script(dst, asan=True, memcheck=False)
            self.counters["probe_runs"] += 1
            self.absorb(r)
            if r["viol"] or r["inconc"]:
                for o in OPTS:
                    if name.startswith(o):
                        enabled[o] = 0
        return enabled

    def nontrivial_of(self, path):
        text = open(path).read()
        ops = [l.split()[0] for l in text.splitlines() if l and not l.startswith(("#", "opt"))]
        it = any(o in ("map_range", "list_range", "obj_items", "keys", "iter", "map_get_all", "list_get_all") for o in ops)
        sl = ("save" in ops and "load" in ops) or "sync_gen" in ops
        if len(ops) >= 20 and it and sl:
            self.nontrivial.add(hashlib.sha256("\n".join(l for l in text.splitlines() if not l.startswith("#")).encode()).hexdigest())

    def generate(self, n, ops_lo, ops_hi, enabled):
        paths = []
        for i in range(n):
            s = self.seed * 100003 + i
            ops = ops_lo + (s * 7919) % (ops_hi - ops_lo + 1)
            p = "%s/s%04d.script" % (self.dir, i)
            cmd = [sys.executable, CAPI + "/gen.py", "--seed", str(s), "--ops", str(ops)]
            for o, v in sorted(enabled.items()):
                cmd += ["--opt", "%s=%d" % (o, v)]
            rc, out, err = sh(cmd)
            if rc != 0:
                self.inconc.append("generator failed: " + err[-200:])
                continue
            open(p, "w").write(out)
            paths.append(p)
            self.nontrivial_of(p)
        self.counters["scripts_generated"] = len(paths)
        return paths

    def miri(self, paths, enabled):
        """Shard 0 runs the full interpreter (AMitems included; alignment checking is switched off when the
        unaligned_items probe already failed, so that Miri reports what lies behind it); the other shards run
        with C36_MIRI_NO_ITEMS=1, i.e. everything except AMitems-based calls, under strict flags."""
        jobs = []
        with cf.ThreadPoolExecutor(max_workers=8) as ex:
            for i, p in enumerate(paths):
                flags = "-Zmiri-disable-isolation"
                if i == 0 and not enabled.get("unaligned_items"):
                    flags += " -Zmiri-disable-alignment-check"
                # script and mode go in as arguments: cargo-miri replays the *build-time* environment
                env = {"MIRIFLAGS": flags, "CARGO_TARGET_DIR": OUT + "/target-miri", "CARGO_NET_OFFLINE": "true"}
                cmd = ["cargo", "+nightly", "miri", "run", "--offline", "--manifest-path", CAPI + "/amc_miri/Cargo.toml", "-q", "--", p]
                if i > 0:
                    cmd.append("no-items")
                jobs.append((p, ex.submit(sh, cmd, env, 1500)))
            for p, j in jobs:
                rc, out, err = j.result()
                self.counters["miri_runs"] += 1
                open(p[:-7] + ".miri.err", "w").write(err)
                if rc == "timeout":
                    self.inconc.append("miri timed out on %s" % p)
                elif rc != 0:
                    m = re.search(r"error: Undefined Behavior: ([^\n]*)", err)
                    if m:
                        loc = re.search(r"--> ([^\n:]+):\d+", err[m.end():])
                        f = os.path.basename(loc.group(1)) if loc else "?"
                        msg = re.sub(r"\(0x[0-9a-f]+\[[a-z0-9]+\][^)]*\)", "", m.group(1))
                        self.viol.append(("c36|miri|%s|%s" % (f, norm(msg)), "Miri: Undefined Behavior: " + m.group(1), p))
                    elif "memory leaked" in err:
                        self.viol.append(("c36|miri|leak", "Miri: memory leaked", p))
                    elif "panicked at" in err:
                        self.counters["both_panicked"] += 1   # a panic of the library itself (not a C36 matter)
                    else:
                        self.inconc.append("miri failed (rc=%s) on %s: %s" % (rc, p, err.strip()[-300:]))

    def main(self):
        quick = self.tier == "quick"
        enabled = self.probes()
        n, lo, hi, nmem = (48, 150, 300, 24) if quick else (560, 150, 900, 180)
        paths = self.generate(n, lo, hi, enabled)
        with cf.ThreadPoolExecutor(max_workers=16) as ex:
            futs = [ex.submit(self.run_script, p, True, i < nmem) for i, p in enumerate(paths)]
            for f in futs:
                self.absorb(f.result())
        if not quick and os.path.exists(CAPI + "/amc_miri/Cargo.toml"):
            mp = []
            for i in range(10):
                s = self.seed * 100003 + 900000 + i
                p = "%s/m%02d.script" % (self.dir, i)
                rc, out, err = sh([sys.executable, CAPI + "/gen.py", "--seed", str(s), "--ops", "70"])
                if rc == 0:
                    open(p, "w").write(out)
                    mp.append(p)
                    self.nontrivial_of(p)
            self.miri(mp, enabled)
        for p in paths[:2]:
            ls = [l for l in open(p).read().splitlines() if not l.startswith("#")]
            self.samples.append({"script": os.path.basename(p), "ops": len(ls),
                                 "head": [l[:120] for l in ls[:14]], "tail": [l[:120] for l in ls[-6:]]})
        return self.finish(enabled)

    def finish(self, enabled):
        known = []
        try:
            for l in open("/verif/known_findings.jsonl"):
                l = l.strip()
                if l and not l.startswith("#"):
                    try:
                        known.append(json.loads(l))
                    except ValueError:
                        pass
        except OSError:
            pass
        reported, known_hit = [], {}
        for sig, what, path in self.viol:
            k = next((k for k in known if k.get("status") == "known" and k.get("property") == "C36" and k.get("sig") == sig), None)
            if k:
                e = known_hit.setdefault(sig, [k.get("what", ""), 0])
                e[1] += 1
            else:
                reported.append((sig, what, path))
            if "|leak" in sig:
                self.counters["leaks"] += 1
            elif "|diff|" in sig:
                self.counters["diffs"] += 1
            else:
                self.counters["errors"] += 1
        for sig, (what, n) in sorted(known_hit.items()):
            print("KNOWN-FINDING: property=C36 %s [sig=%s; seen %dx this run]" % (what, sig, n))
        seen = set()
        for sig, what, path in reported:
            if sig in seen:
                continue
            seen.add(sig)
            print("VIOLATION property=C36 replay=%s" % path)
            print("  sig=%s :: %s" % (sig, what.splitlines()[0][:400]))
        evaluations = self.counters["scripts_generated"] + self.counters["probe_runs"] + (self.counters["miri_runs"])
        ev = {
            "property_id": "C36", "tier": self.tier, "seed": self.seed, "level": "exploration",
            "coverage": {
                "evaluations": evaluations,
                "distinct_nontrivial": len(self.nontrivial),
                "rule": "scripts of C API calls are generated from the seed by /verif/capi/gen.py (handles tracked so that only live handles are used; "
                        "positions reduced modulo the current object size by driver and twin alike) plus the hand-written probe scripts in /verif/capi/probes; "
                        "each script is executed through the C ABI (cdriver.c; ASan+UBSan+LSan build for all, valgrind memcheck for a subset, Miri via the amc_miri "
                        "wrapper in the thorough tier) and through AutoCommit (twin) and the observation streams are compared line by line. A script is non-trivial "
                        "when it has >= 20 calls including an items iteration (range/keys/items/iter) and a save+load or a sync exchange; distinct = distinct sha256 of the script text",
                "samples": self.samples,
                "api_functions_called": len(self.calls),
                "calls_per_api_function": dict(sorted(self.calls.items())),
                "probe_opts_enabled_in_generated_scripts": enabled,
                **self.counters,
            },
            "assumptions": [
                "the twin (capi/twin) mirrors, call by call, the AutoCommit/ReadDoc methods automerge-c invokes; its correctness is trusted",
                "error results are compared by status only (the C API's own argument-validation messages have no Rust counterpart)",
                "automerge-c is built in the dev profile: Rust debug assertions / UB precondition checks abort the process and are reported as memory errors",
                "the script generator only issues calls on live handles and within the documented preconditions",
            ],
            "wall_s": round(time.time() - T0 + float(os.environ.get("C36_BUILD_S", "0")), 2),
            "violations": len(seen),
        }
        evdir = os.environ.get("VERIF_EVIDENCE_DIR", "/verif/evidence")
        os.makedirs(evdir, exist_ok=True)
        json.dump(ev, open(os.path.join(evdir, "C36.json"), "w"), indent=1)
        if seen:
            return 1
        if self.inconc:
            print("INCONCLUSIVE property=C36 %s" % self.inconc[0].replace("\n", " ")[:400])
            return 2
        return 0


if __name__ == "__main__":
    sys.exit(Run(sys.argv[1], int(sys.argv[2])).main())
