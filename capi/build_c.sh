#!/bin/bash
# Builds the two C driver flavours against the two staticlibs.  Usage: build_c.sh
set -euo pipefail
OUT=/verif/out/capi
SRC=/verif/capi
INC="-I $OUT/inc -I /repo/rust/automerge-c/include -I $SRC"
mkdir -p $OUT/bin $OUT/inc/automerge-c
# replicate the two CMake post-processing steps on a copy of the generated header
sed -E 's/A_M([^_]+)_/AM_\1_/g; s/USIZE_/+8/g' $OUT/include/automerge.h > $OUT/inc/automerge-c/automerge.h.new
cmp -s $OUT/inc/automerge-c/automerge.h.new $OUT/inc/automerge-c/automerge.h 2>/dev/null || mv $OUT/inc/automerge-c/automerge.h.new $OUT/inc/automerge-c/automerge.h
rm -f $OUT/inc/automerge-c/automerge.h.new
PLAIN=$OUT/target/debug/libautomerge_core.a
ASAN=$OUT/target-asan/x86_64-unknown-linux-gnu/debug/libautomerge_core.a
W="-Wall -Wextra -Wno-unused-function"
newer() { [ ! -e "$1" ] || [ -n "$(find "${@:2}" -newer "$1" 2>/dev/null | head -1)" ]; }
SRCS="$SRC/cdriver.c $SRC/cdriver_a.h $SRC/cdriver_b.h $SRC/cdriver_c.h $OUT/inc/automerge-c/automerge.h"
if newer $OUT/bin/cdriver-plain $SRCS $PLAIN; then
  clang -O0 -g -gdwarf-4 $W $INC $SRC/cdriver.c $PLAIN -lm -lpthread -ldl -o $OUT/bin/cdriver-plain &
fi
if newer $OUT/bin/cdriver-asan $SRCS $ASAN; then
  clang -O0 -g -gdwarf-4 $W -fsanitize=address,undefined -fno-sanitize-recover=all -fno-omit-frame-pointer $INC $SRC/cdriver.c $ASAN -lm -lpthread -ldl -o $OUT/bin/cdriver-asan &
fi
wait
[ -x $OUT/bin/cdriver-plain ] && [ -x $OUT/bin/cdriver-asan ]
