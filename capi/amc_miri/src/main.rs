#![allow(dead_code, clippy::all)]
// The repo's module tree, compiled in place: nested `mod`s resolve relative to the included file.
include!("/repo/rust/automerge-c/src/lib.rs");
mod verif_driver;

fn main() {
    // NB: parameters come as arguments, not environment variables: cargo-miri replays the
    // environment it recorded when the crate was *built*, so env vars would be stale.
    let mut a = std::env::args().skip(1);
    let path = a.next().expect("usage: amc_miri <script> [no-items]");
    let no_items = a.next().as_deref() == Some("no-items");
    verif_driver::run(&path, no_items);
}
