#![allow(dead_code, clippy::all)]
// The repo's module tree, compiled in place: nested `mod`s resolve relative to the included file.
include!("/repo/rust/automerge-c/src/lib.rs");
mod verif_driver;

fn main() {
    let path = std::env::var("C36_SCRIPT").expect("C36_SCRIPT=<script>");
    verif_driver::run(&path);
}
