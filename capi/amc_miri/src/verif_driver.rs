//! Script interpreter for Miri: the same script format as cdriver.c, executed by
//! calling automerge-c's `extern "C"` functions directly (no observations are
//! printed; Miri is the oracle: UB, leaks).  Ops it does not know are ignored,
//! as are the `opt` probes (their defects are reported by the ASan tier).
use crate::actor_id::*;
use crate::byte_span::*;
use crate::change::*;
use crate::cursor::*;
use crate::doc::list::*;
use crate::doc::map::*;
use crate::doc::mark::*;
use crate::doc::*;
use crate::item::*;
use crate::items::*;
use crate::obj::*;
use crate::result::*;
use crate::sync::{AMsyncMessage, AMsyncState};
use std::ptr::{null, null_mut};

#[derive(Clone, Copy, PartialEq, Eq)]
enum K {
    Empty,
    Actor,
    Doc,
    Obj,
    Hashes,
    Changes,
    Bytes,
    Cursor,
    Sync,
    Msg,
    Items,
}
#[derive(Clone, Copy)]
struct Slot {
    k: K,
    res: *mut AMresult,
    ptr: *const u8,
}

static mut SINK: u64 = 0;
/// `no-items` argument: never build an AMitems (its known alignment/provenance defects stop Miri at once);
/// results are then inspected through AMresultItem() only and ops that need an AMitems argument are skipped.
static mut NO_ITEMS: bool = false;

// `sync::state` is a private module: reach its constructor through the exported symbol
extern "C" {
    fn AMsyncStateInit() -> *mut AMresult;
}

unsafe fn touch(s: &AMbyteSpan) {
    if !s.src.is_null() {
        for i in 0..s.count {
            SINK = SINK.wrapping_mul(31).wrapping_add(*s.src.add(i) as u64);
        }
    }
}

struct D {
    slots: Vec<Slot>,
    t: Vec<String>,
    bufs: Vec<Vec<u8>>,
}

fn unhex(t: &str) -> Vec<u8> {
    (0..t.len() / 2).map(|i| u8::from_str_radix(&t[2 * i..2 * i + 2], 16).unwrap()).collect()
}

impl D {
    fn tok(&self, i: usize) -> &str {
        &self.t[i]
    }
    fn h(&self, i: usize) -> Option<usize> {
        self.t[i].parse().ok()
    }
    /// "=hex" -> span over a buffer kept alive until the end of the op; "-" -> NULL span
    fn span(&mut self, i: usize) -> AMbyteSpan {
        let t = self.t[i].clone();
        self.span_of(&t)
    }
    fn span_of(&mut self, t: &str) -> AMbyteSpan {
        if t == "-" {
            return AMbyteSpan { src: null(), count: 0 };
        }
        let mut b = unhex(&t[1..]);
        let count = b.len();
        if b.is_empty() {
            b.push(0);
        }
        self.bufs.push(b);
        AMbyteSpan { src: self.bufs.last().unwrap().as_ptr(), count }
    }
    fn slot(&self, i: usize, k: K) -> Option<Slot> {
        let s = self.slots[self.h(i)?];
        (s.k == k).then_some(s)
    }
    fn doc(&self, i: usize) -> Option<*mut AMdoc> {
        self.slot(i, K::Doc).map(|s| s.ptr as *mut AMdoc)
    }
    fn obj(&self, i: usize) -> Option<*const AMobjId> {
        if self.t[i] == "R" {
            return Some(null());
        }
        self.slot(i, K::Obj).map(|s| s.ptr as *const AMobjId)
    }
    /// Some(None) = current, Some(Some(items)) = historical, None = skip
    unsafe fn heads(&self, i: usize) -> Option<Option<AMitems<'static>>> {
        if self.t[i] == "-" {
            return Some(None);
        }
        let s = self.slot(i, K::Hashes)?;
        if NO_ITEMS || AMresultSize(s.res) == 0 {
            return None;
        }
        Some(Some(AMresultItems(s.res)))
    }
    unsafe fn set(&mut self, i: usize, k: K, res: *mut AMresult, ptr: *const u8) {
        let h = self.h(i).unwrap();
        assert!(self.slots[h].k == K::Empty, "dst occupied");
        self.slots[h] = Slot { k, res, ptr };
    }
    unsafe fn free(&mut self, h: usize) {
        if self.slots[h].k != K::Empty {
            AMresultFree(self.slots[h].res);
            self.slots[h] = Slot { k: K::Empty, res: null_mut(), ptr: null() };
        }
    }
}

unsafe fn ok(r: *mut AMresult) -> bool {
    if AMresultStatus(r) == AMstatus::Ok {
        return true;
    }
    touch(&AMresultError(r));
    false
}

unsafe fn dump_item(it: *mut AMitem) {
    let _ = AMitemIdxType(it);
    let mut key = AMbyteSpan { src: null(), count: 0 };
    if AMitemKey(it, &mut key) {
        touch(&key);
    }
    let mut pos = 0usize;
    AMitemPos(it, &mut pos);
    let o = AMitemObjId(it);
    if !o.is_null() {
        let _ = AMobjIdCounter(o) + AMobjIdIndex(o) as u64;
        let a = AMobjIdActorId(o);
        if !a.is_null() {
            touch(&AMactorIdStr(a));
            touch(&AMactorIdBytes(a));
        }
    }
    let _ = AMitemValType(it);
    let _ = AMitemRefCount(it);
    let mut sp = AMbyteSpan { src: null(), count: 0 };
    if AMitemToBytes(it, &mut sp) {
        touch(&sp);
    }
    if AMitemToStr(it, &mut sp) {
        touch(&sp);
    }
    if AMitemToChangeHash(it, &mut sp) {
        touch(&sp);
    }
    let (mut b, mut i, mut u, mut f) = (false, 0i64, 0u64, 0f64);
    AMitemToBool(it, &mut b);
    AMitemToCounter(it, &mut i);
    AMitemToInt(it, &mut i);
    AMitemToTimestamp(it, &mut i);
    AMitemToUint(it, &mut u);
    AMitemToF64(it, &mut f);
    let mut a: *const AMactorId = null();
    if AMitemToActorId(it, &mut a) {
        touch(&AMactorIdStr(a));
    }
    let mut c: *mut AMchange = null_mut();
    if AMitemToChange(it, &mut c) {
        touch(&AMchangeHash(c));
        touch(&AMchangeRawBytes(c));
        touch(&AMchangeMessage(c));
        touch(&AMchangeExtraBytes(c));
        let _ = AMchangeSeq(c) + AMchangeStartOp(c) + AMchangeMaxOp(c) + AMchangeSize(c) as u64;
        let _ = AMchangeTime(c);
        let _ = AMchangeIsEmpty(c);
        let ar = AMchangeActorId(c);
        dump_all(ar, "F");
        AMresultFree(ar);
        let dr = AMchangeDeps(c);
        dump_all(dr, "F");
        AMresultFree(dr);
    }
    let mut cur: *const AMcursor = null();
    if AMitemToCursor(it, &mut cur) {
        touch(&AMcursorStr(cur));
        touch(&AMcursorBytes(cur));
    }
    let mut d: *mut AMdoc = null_mut();
    AMitemToDoc(it, &mut d);
    let mut m: *const AMmark = null();
    if AMitemToMark(it, &mut m) {
        touch(&AMmarkName(m));
        let _ = AMmarkStart(m) + AMmarkEnd(m);
        let vr = AMmarkValue(m);
        if ok(vr) {
            dump_item(AMresultItem(vr));
        }
        AMresultFree(vr);
    }
    let mut sm: *const AMsyncMessage = null();
    AMitemToSyncMessage(it, &mut sm);
    let mut ss: *mut AMsyncState = null_mut();
    AMitemToSyncState(it, &mut ss);
}

unsafe fn dump_all(r: *mut AMresult, mode: &str) {
    if !ok(r) {
        return;
    }
    let n = AMresultSize(r);
    if NO_ITEMS {
        let x = AMresultItem(r);
        if !x.is_null() {
            dump_item(x);
        }
        return;
    }
    let mut it = AMresultItems(r);
    let _ = AMitemsSize(&it);
    match mode.as_bytes()[0] {
        b'R' => {
            let mut rv = AMitemsReversed(&it);
            loop {
                let x = AMitemsNext(&mut rv, 1);
                if x.is_null() {
                    break;
                }
                dump_item(x);
            }
        }
        b'B' => {
            AMitemsAdvance(&mut it, n as isize);
            loop {
                let x = AMitemsPrev(&mut it, 1);
                if x.is_null() {
                    break;
                }
                dump_item(x);
            }
        }
        b'W' => {
            for _ in 0..2 {
                let x = AMitemsNext(&mut it, 1);
                if !x.is_null() {
                    dump_item(x);
                }
            }
            let mut rw = AMitemsRewound(&it);
            loop {
                let x = AMitemsNext(&mut rw, 1);
                if x.is_null() {
                    break;
                }
                dump_item(x);
            }
        }
        m => {
            let k: isize = if m == b'S' { mode[1..].parse().unwrap_or(1) } else { 1 };
            loop {
                let x = AMitemsNext(&mut it, k);
                if x.is_null() {
                    break;
                }
                dump_item(x);
            }
        }
    }
}

unsafe fn finish(r: *mut AMresult, mode: &str) {
    dump_all(r, mode);
    AMresultFree(r);
}

unsafe fn item_from(d: &mut D, t: &str) -> *mut AMresult {
    let (ty, p) = t.split_once(':').unwrap();
    match ty {
        "bool" => AMitemFromBool(p != "0"),
        "bytes" => {
            let s = d.span_of(p);
            AMitemFromBytes(s.src, s.count)
        }
        "counter" => AMitemFromCounter(p.parse().unwrap()),
        "f64" => AMitemFromF64(f64::from_bits(u64::from_str_radix(p, 16).unwrap())),
        "int" => AMitemFromInt(p.parse().unwrap()),
        "null" => AMitemFromNull(),
        "str" => {
            let s = d.span_of(p);
            AMitemFromStr(s)
        }
        "ts" => AMitemFromTimestamp(p.parse().unwrap()),
        _ => AMitemFromUint(p.parse().unwrap()),
    }
}

unsafe fn put(d: &mut D, doc: *mut AMdoc, o: *const AMobjId, key: Option<AMbyteSpan>, pos: usize, ins: bool, t: &str) -> *mut AMresult {
    let (ty, p) = t.split_once(':').unwrap();
    let sp = if ty == "bytes" || ty == "str" { d.span_of(p) } else { AMbyteSpan { src: null(), count: 0 } };
    let i: i64 = p.parse().unwrap_or(0);
    match (key, ty) {
        (Some(k), "bool") => AMmapPutBool(doc, o, k, p != "0"),
        (Some(k), "bytes") => AMmapPutBytes(doc, o, k, sp),
        (Some(k), "counter") => AMmapPutCounter(doc, o, k, i),
        (Some(k), "f64") => AMmapPutF64(doc, o, k, f64::from_bits(u64::from_str_radix(p, 16).unwrap())),
        (Some(k), "int") => AMmapPutInt(doc, o, k, i),
        (Some(k), "null") => AMmapPutNull(doc, o, k),
        (Some(k), "str") => AMmapPutStr(doc, o, k, sp),
        (Some(k), "ts") => AMmapPutTimestamp(doc, o, k, i),
        (Some(k), _) => AMmapPutUint(doc, o, k, p.parse().unwrap()),
        (None, "bool") => AMlistPutBool(doc, o, pos, ins, p != "0"),
        (None, "bytes") => AMlistPutBytes(doc, o, pos, ins, sp),
        (None, "counter") => AMlistPutCounter(doc, o, pos, ins, i),
        (None, "f64") => AMlistPutF64(doc, o, pos, ins, f64::from_bits(u64::from_str_radix(p, 16).unwrap())),
        (None, "int") => AMlistPutInt(doc, o, pos, ins, i),
        (None, "null") => AMlistPutNull(doc, o, pos, ins),
        (None, "str") => AMlistPutStr(doc, o, pos, ins, sp),
        (None, "ts") => AMlistPutTimestamp(doc, o, pos, ins, i),
        (None, _) => AMlistPutUint(doc, o, pos, ins, p.parse().unwrap()),
    }
}

fn objtype(t: &str) -> AMobjType {
    match t {
        "map" => AMobjType::Map,
        "list" => AMobjType::List,
        _ => AMobjType::Text,
    }
}
fn expand(t: &str) -> AMmarkExpand {
    match t {
        "none" => AMmarkExpand::None,
        "before" => AMmarkExpand::Before,
        "after" => AMmarkExpand::After,
        _ => AMmarkExpand::Both,
    }
}

unsafe fn respos(doc: *mut AMdoc, o: *const AMobjId, t: &str, ins: &mut bool) -> usize {
    let len = AMobjSize(doc, o, null());
    if len == 0 {
        *ins = true;
        return if t == "MAX" { usize::MAX } else { 0 };
    }
    if t == "MAX" {
        return usize::MAX;
    }
    let r: usize = t.parse().unwrap();
    if *ins {
        r % (len + 1)
    } else {
        r % len
    }
}

unsafe fn store_obj(d: &mut D, r: *mut AMresult, dst: usize) {
    if ok(r) {
        let it = AMresultItem(r);
        dump_item(it);
        if d.tok(dst) != "-" && AMitemValType(it) == AMvalType::ObjType {
            d.set(dst, K::Obj, r, AMitemObjId(it) as *const u8);
            return;
        }
    }
    AMresultFree(r);
}

macro_rules! need {
    ($e:expr) => {
        match $e {
            Some(x) => x,
            None => return,
        }
    };
}
macro_rules! hp {
    ($h:expr) => {
        match &$h {
            Some(x) => x as *const AMitems,
            None => null(),
        }
    };
}

unsafe fn step(d: &mut D) {
    let op = d.t[0].clone();
    match op.as_str() {
        "actor_bytes" => {
            let s = d.span(2);
            let r = AMactorIdFromBytes(s.src, s.count);
            let mut a: *const AMactorId = null();
            if ok(r) && AMitemToActorId(AMresultItem(r), &mut a) {
                touch(&AMactorIdStr(a));
                d.set(1, K::Actor, r, a as *const u8);
            } else {
                AMresultFree(r);
            }
        }
        "actor_str" => {
            let s = d.span(2);
            let r = AMactorIdFromStr(s);
            let mut a: *const AMactorId = null();
            if ok(r) && AMitemToActorId(AMresultItem(r), &mut a) {
                touch(&AMactorIdBytes(a));
                d.set(1, K::Actor, r, a as *const u8);
            } else {
                AMresultFree(r);
            }
        }
        "create" | "clone" | "fork" | "load" => {
            let (r, actor) = match op.as_str() {
                "create" => (AMcreate(need!(d.slot(2, K::Actor)).ptr as *const AMactorId), None),
                "clone" => (AMclone(need!(d.doc(2))), None),
                "fork" => {
                    let doc = need!(d.doc(2));
                    let a = need!(d.slot(3, K::Actor));
                    let h = need!(d.heads(4));
                    (AMfork(doc, hp!(h)), Some(a.ptr as *const AMactorId))
                }
                _ => {
                    let b = need!(d.slot(2, K::Bytes));
                    let a = need!(d.slot(3, K::Actor));
                    let mut s = AMbyteSpan { src: null(), count: 0 };
                    AMitemToBytes(AMresultItem(b.res), &mut s);
                    (AMload(s.src, s.count), Some(a.ptr as *const AMactorId))
                }
            };
            let mut doc: *mut AMdoc = null_mut();
            if ok(r) && AMitemToDoc(AMresultItem(r), &mut doc) {
                if let Some(a) = actor {
                    AMresultFree(AMsetActorId(doc, a));
                }
                d.set(1, K::Doc, r, doc as *const u8);
            } else {
                AMresultFree(r);
            }
        }
        "set_actor" => {
            let doc = need!(d.doc(1));
            let a = need!(d.slot(2, K::Actor));
            AMresultFree(AMsetActorId(doc, a.ptr as *const AMactorId));
        }
        "get_actor" => finish(AMgetActorId(need!(d.doc(1))), "F"),
        "free" => {
            let h = d.h(1).unwrap();
            d.free(h);
        }
        "map_put" => {
            let (doc, o) = (need!(d.doc(1)), need!(d.obj(2)));
            let k = d.span(3);
            let t = d.t[4].clone();
            finish(put(d, doc, o, Some(k), 0, false, &t), "F");
        }
        "map_put_obj" => {
            let (doc, o) = (need!(d.doc(2)), need!(d.obj(3)));
            let k = d.span(4);
            let r = AMmapPutObject(doc, o, k, objtype(d.tok(5)));
            store_obj(d, r, 1);
        }
        "list_put" => {
            let (doc, o) = (need!(d.doc(1)), need!(d.obj(2)));
            let mut ins = d.tok(4) != "0";
            let p = respos(doc, o, d.tok(3), &mut ins);
            let t = d.t[5].clone();
            finish(put(d, doc, o, None, p, ins, &t), "F");
        }
        "list_put_obj" => {
            let (doc, o) = (need!(d.doc(2)), need!(d.obj(3)));
            let mut ins = d.tok(5) != "0";
            let p = respos(doc, o, d.tok(4), &mut ins);
            let r = AMlistPutObject(doc, o, p, ins, objtype(d.tok(6)));
            store_obj(d, r, 1);
        }
        "map_inc" => {
            let (doc, o) = (need!(d.doc(1)), need!(d.obj(2)));
            let k = d.span(3);
            finish(AMmapIncrement(doc, o, k, d.tok(4).parse().unwrap()), "F");
        }
        "list_inc" | "list_del" => {
            let (doc, o) = (need!(d.doc(1)), need!(d.obj(2)));
            let mut ins = false;
            let p = respos(doc, o, d.tok(3), &mut ins);
            if op == "list_inc" {
                finish(AMlistIncrement(doc, o, p, d.tok(4).parse().unwrap()), "F");
            } else {
                finish(AMlistDelete(doc, o, p), "F");
            }
        }
        "map_del" => {
            let (doc, o) = (need!(d.doc(1)), need!(d.obj(2)));
            let k = d.span(3);
            finish(AMmapDelete(doc, o, k), "F");
        }
        "mkitems" => {
            let t = d.t[2].clone();
            let mut r = item_from(d, &t);
            for i in 3..d.t.len() {
                let t = d.t[i].clone();
                let x = item_from(d, &t);
                let n = AMresultCat(r, x);
                AMresultFree(r);
                AMresultFree(x);
                r = n;
            }
            if ok(r) {
                d.set(1, K::Items, r, null());
            } else {
                AMresultFree(r);
            }
        }
        "splice" | "splice_text" => {
            let (doc, o) = (need!(d.doc(1)), need!(d.obj(2)));
            let len = AMobjSize(doc, o, null());
            let p = if d.tok(3) == "MAX" { len } else { d.tok(3).parse::<usize>().unwrap() % (len + 1) };
            let dd: i64 = d.tok(4).parse().unwrap();
            let del = if dd >= 0 { (dd as usize % (len - p + 1)) as isize } else { -(((-dd) as usize % (p + 1)) as isize) };
            if op == "splice" {
                if NO_ITEMS {
                    return;
                }
                let v = need!(d.slot(5, K::Items));
                finish(AMsplice(doc, o, p, del, AMresultItems(v.res)), "F");
            } else {
                let s = d.span(5);
                finish(AMspliceText(doc, o, p, del, s), "F");
            }
        }
        "mark" | "unmark" => {
            let (doc, o) = (need!(d.doc(1)), need!(d.obj(2)));
            let len = AMobjSize(doc, o, null());
            if len == 0 {
                return;
            }
            let st = d.tok(3).parse::<usize>().unwrap() % len;
            let en = st + 1 + d.tok(4).parse::<usize>().unwrap() % (len - st);
            let ex = expand(d.tok(5));
            let name = d.span(6);
            if op == "mark" {
                let t = d.t[7].clone();
                let vr = item_from(d, &t);
                if ok(vr) {
                    finish(AMmarkCreate(doc, o, st, en, ex, name, AMresultItem(vr)), "F");
                }
                AMresultFree(vr);
            } else {
                finish(AMmarkClear(doc, o, st, en, ex, name), "F");
            }
        }
        "marks" => {
            let (doc, o, h) = (need!(d.doc(1)), need!(d.obj(2)), need!(d.heads(3)));
            finish(AMmarks(doc, o, hp!(h)), "F");
        }
        "commit" | "empty_change" => {
            let doc = need!(d.doc(1));
            let msg = d.span(2);
            let ts: Option<i64> = d.tok(3).parse().ok();
            let tp = ts.as_ref().map(|t| t as *const i64).unwrap_or(null());
            finish(if op == "commit" { AMcommit(doc, msg, tp) } else { AMemptyChange(doc, msg, tp) }, "F");
        }
        "rollback" => {
            AMrollback(need!(d.doc(1)));
        }
        "pending" => {
            AMpendingOps(need!(d.doc(1)));
        }
        "map_get" => {
            let (doc, o, h) = (need!(d.doc(2)), need!(d.obj(3)), need!(d.heads(5)));
            let k = d.span(4);
            let r = AMmapGet(doc, o, k, hp!(h));
            store_obj(d, r, 1);
        }
        "list_get" => {
            let (doc, o, h) = (need!(d.doc(2)), need!(d.obj(3)), need!(d.heads(5)));
            let mut ins = false;
            let p = respos(doc, o, d.tok(4), &mut ins);
            let r = AMlistGet(doc, o, p, hp!(h));
            store_obj(d, r, 1);
        }
        "map_get_all" => {
            let (doc, o, h) = (need!(d.doc(1)), need!(d.obj(2)), need!(d.heads(4)));
            let k = d.span(3);
            finish(AMmapGetAll(doc, o, k, hp!(h)), &d.t[5].clone());
        }
        "list_get_all" => {
            let (doc, o, h) = (need!(d.doc(1)), need!(d.obj(2)), need!(d.heads(4)));
            let mut ins = false;
            let p = respos(doc, o, d.tok(3), &mut ins);
            finish(AMlistGetAll(doc, o, p, hp!(h)), &d.t[5].clone());
        }
        "keys" => {
            let (doc, o, h) = (need!(d.doc(1)), need!(d.obj(2)), need!(d.heads(3)));
            finish(AMkeys(doc, o, hp!(h)), &d.t[4].clone());
        }
        "map_range" => {
            let (doc, o, h) = (need!(d.doc(1)), need!(d.obj(2)), need!(d.heads(5)));
            let (b, e) = (d.span(3), d.span(4));
            finish(AMmapRange(doc, o, b, e, hp!(h)), &d.t[6].clone());
        }
        "list_range" => {
            let (doc, o, h) = (need!(d.doc(1)), need!(d.obj(2)), need!(d.heads(5)));
            let pu = |t: &str| if t == "MAX" { usize::MAX } else { t.parse().unwrap() };
            finish(AMlistRange(doc, o, pu(d.tok(3)), pu(d.tok(4)), hp!(h)), &d.t[6].clone());
        }
        "obj_items" => {
            let (doc, o, h) = (need!(d.doc(1)), need!(d.obj(2)), need!(d.heads(3)));
            finish(AMobjItems(doc, o, hp!(h)), &d.t[4].clone());
        }
        "text" => {
            let (doc, o, h) = (need!(d.doc(1)), need!(d.obj(2)), need!(d.heads(3)));
            finish(AMtext(doc, o, hp!(h)), "F");
        }
        "size" => {
            let (doc, o, h) = (need!(d.doc(1)), need!(d.obj(2)), need!(d.heads(3)));
            AMobjSize(doc, o, hp!(h));
        }
        "obj_type" => {
            let _ = AMobjObjType(need!(d.doc(1)), need!(d.obj(2)));
        }
        "heads" | "changes" | "last_local" => {
            let doc = need!(d.doc(2));
            let (r, k) = match op.as_str() {
                "heads" => (AMgetHeads(doc), K::Hashes),
                "changes" => {
                    let h = need!(d.heads(3));
                    (AMgetChanges(doc, hp!(h)), K::Changes)
                }
                _ => (AMgetLastLocalChange(doc), K::Changes),
            };
            if ok(r) {
                dump_all(r, "F");
                d.set(1, k, r, null());
            } else {
                AMresultFree(r);
            }
        }
        "changes_added" => {
            let (a, b) = (need!(d.doc(2)), need!(d.doc(3)));
            if a == b {
                return;
            }
            let r = AMgetChangesAdded(a, b);
            d.set(1, K::Changes, r, null());
        }
        "missing_deps" => {
            let (doc, h) = (need!(d.doc(1)), need!(d.heads(2)));
            finish(AMgetMissingDeps(doc, hp!(h)), "F");
        }
        "apply" => {
            let doc = need!(d.doc(1));
            let c = need!(d.slot(2, K::Changes));
            if NO_ITEMS || AMresultSize(c.res) == 0 {
                return;
            }
            let it = AMresultItems(c.res);
            finish(AMapplyChanges(doc, &it), "F");
        }
        "change_info" | "iter" => {
            let h = need!(d.h(1));
            let s = d.slots[h];
            if matches!(s.k, K::Hashes | K::Changes | K::Items) {
                dump_all(s.res, &d.t[2].clone());
            }
        }
        "merge" | "equal" => {
            let (a, b) = (need!(d.doc(1)), need!(d.doc(2)));
            if a == b {
                return;
            }
            if op == "merge" {
                finish(AMmerge(a, b), "F");
            } else {
                AMequal(a, b);
            }
        }
        "save" | "save_inc" => {
            let doc = need!(d.doc(2));
            let r = if op == "save" { AMsave(doc) } else { AMsaveIncremental(doc) };
            dump_all(r, "F");
            d.set(1, K::Bytes, r, null());
        }
        "load_inc" => {
            let doc = need!(d.doc(1));
            let b = need!(d.slot(2, K::Bytes));
            let mut s = AMbyteSpan { src: null(), count: 0 };
            AMitemToBytes(AMresultItem(b.res), &mut s);
            finish(AMloadIncremental(doc, s.src, s.count), "F");
        }
        "cursor" => {
            let (doc, o, h) = (need!(d.doc(2)), need!(d.obj(3)), need!(d.heads(5)));
            let len = AMobjSize(doc, o, hp!(h));
            if len == 0 {
                return;
            }
            let r = AMgetCursor(doc, o, d.tok(4).parse::<usize>().unwrap() % len, hp!(h));
            let mut c: *const AMcursor = null();
            if ok(r) && AMitemToCursor(AMresultItem(r), &mut c) {
                dump_item(AMresultItem(r));
                d.set(1, K::Cursor, r, c as *const u8);
            } else {
                AMresultFree(r);
            }
        }
        "cursor_pos" => {
            let (doc, o) = (need!(d.doc(1)), need!(d.obj(2)));
            let c = need!(d.slot(3, K::Cursor));
            let h = need!(d.heads(4));
            finish(AMgetCursorPosition(doc, o, c.ptr as *const AMcursor, hp!(h)), "F");
        }
        "cursor_rt" => {
            let c = need!(d.slot(2, K::Cursor)).ptr as *const AMcursor;
            let r = if d.tok(3) == "bytes" {
                let b = AMcursorBytes(c);
                AMcursorFromBytes(b.src, b.count)
            } else {
                AMcursorFromStr(AMcursorStr(c))
            };
            let mut n: *const AMcursor = null();
            if ok(r) && AMitemToCursor(AMresultItem(r), &mut n) {
                let _ = AMcursorEqual(c, n);
                d.set(1, K::Cursor, r, n as *const u8);
            } else {
                AMresultFree(r);
            }
        }
        "sync_init" => {
            let r = AMsyncStateInit();
            let mut s: *mut AMsyncState = null_mut();
            AMitemToSyncState(AMresultItem(r), &mut s);
            d.set(1, K::Sync, r, s as *const u8);
        }
        "sync_gen" => {
            let doc = need!(d.doc(2));
            let s = need!(d.slot(3, K::Sync));
            let r = crate::doc::AMgenerateSyncMessage(doc, s.ptr as *mut AMsyncState);
            let mut m: *const AMsyncMessage = null();
            if ok(r) && AMitemToSyncMessage(AMresultItem(r), &mut m) {
                d.set(1, K::Msg, r, m as *const u8);
            } else {
                AMresultFree(r);
            }
        }
        "sync_recv" => {
            let doc = need!(d.doc(1));
            let s = need!(d.slot(2, K::Sync));
            let m = need!(d.slot(3, K::Msg));
            finish(AMreceiveSyncMessage(doc, s.ptr as *mut AMsyncState, m.ptr as *const AMsyncMessage), "F");
        }
        "item_result" => {
            let h = need!(d.h(2));
            let s = d.slots[h];
            if NO_ITEMS {
                let x = AMresultItem(s.res);
                if matches!(s.k, K::Hashes | K::Changes | K::Items) && !x.is_null() {
                    let r = AMitemResult(x);
                    d.set(1, s.k, r, null());
                }
                return;
            }
            if !matches!(s.k, K::Hashes | K::Changes | K::Items) || AMresultSize(s.res) == 0 {
                return;
            }
            let mut it = AMresultItems(s.res);
            AMitemsAdvance(&mut it, (d.tok(3).parse::<usize>().unwrap() % AMresultSize(s.res)) as isize);
            let x = AMitemsNext(&mut it, 1);
            let r = AMitemResult(x);
            d.set(1, s.k, r, null());
        }
        "cat" => {
            let (ha, hb) = (need!(d.h(2)), need!(d.h(3)));
            let (a, b) = (d.slots[ha], d.slots[hb]);
            if a.k != b.k || !matches!(a.k, K::Hashes | K::Changes | K::Items) {
                return;
            }
            let r = AMresultCat(a.res, b.res);
            d.set(1, a.k, r, null());
        }
        "end" => {
            for h in 0..d.slots.len() {
                d.free(h);
            }
        }
        _ => {}
    }
}

pub fn run(path: &str, no_items: bool) {
    let text = std::fs::read_to_string(path).expect("read script");
    let mut d = D { slots: vec![Slot { k: K::Empty, res: null_mut(), ptr: null() }; 512], t: vec![], bufs: vec![] };
    let mut n = 0;
    unsafe {
        NO_ITEMS = no_items;
    }
    for l in text.lines() {
        d.t = l.split_whitespace().map(|s| s.to_string()).collect();
        if d.t.is_empty() || d.t[0].starts_with('#') || d.t[0] == "opt" {
            continue;
        }
        unsafe { step(&mut d) };
        d.bufs.clear();
        n += 1;
    }
    unsafe {
        for h in 0..d.slots.len() {
            d.free(h);
        }
        println!("amc_miri: {} ops done (sink {})", n, SINK);
    }
}
