/* cdriver_b.h -- part 2 of the C36 C driver: value tokens, position
 * resolution, document mutation / read ops. */

/* ---------- value tokens: TYPE:payload ---------- */
typedef enum { V_BOOL, V_BYTES, V_COUNTER, V_F64, V_INT, V_NULL, V_STR, V_TS, V_UINT } VType;
typedef struct { VType t; int64_t i; uint64_t u; double d; AMbyteSpan s; } Val;

static Val tval(char const* t) {
  Val v; memset(&v, 0, sizeof v);
  char const* c = strchr(t, ':');
  if (!c) harness_fail("bad value token");
  size_t n = (size_t)(c - t);
  char const* p = c + 1;
  if (n == 4 && !strncmp(t, "bool", 4)) { v.t = V_BOOL; v.i = atoi(p); }
  else if (n == 5 && !strncmp(t, "bytes", 5)) { v.t = V_BYTES; v.s = tspan(p); }
  else if (n == 7 && !strncmp(t, "counter", 7)) { v.t = V_COUNTER; v.i = ti64(p); }
  else if (n == 3 && !strncmp(t, "f64", 3)) { v.t = V_F64; uint64_t b = strtoull(p, NULL, 16); memcpy(&v.d, &b, 8); }
  else if (n == 3 && !strncmp(t, "int", 3)) { v.t = V_INT; v.i = ti64(p); }
  else if (n == 4 && !strncmp(t, "null", 4)) { v.t = V_NULL; }
  else if (n == 3 && !strncmp(t, "str", 3)) { v.t = V_STR; v.s = tspan(p); }
  else if (n == 2 && !strncmp(t, "ts", 2)) { v.t = V_TS; v.i = ti64(p); }
  else if (n == 4 && !strncmp(t, "uint", 4)) { v.t = V_UINT; v.u = tu64(p); }
  else harness_fail("unknown value type");
  return v;
}
static AMresult* item_from(Val v) {
  switch (v.t) {
    case V_BOOL: return C(AMitemFromBool)(v.i != 0);
    case V_BYTES: return C(AMitemFromBytes)(v.s.src, v.s.count);
    case V_COUNTER: return C(AMitemFromCounter)(v.i);
    case V_F64: return C(AMitemFromF64)(v.d);
    case V_INT: return C(AMitemFromInt)(v.i);
    case V_NULL: return C(AMitemFromNull)();
    case V_STR: return C(AMitemFromStr)(v.s);
    case V_TS: return C(AMitemFromTimestamp)(v.i);
    default: return C(AMitemFromUint)(v.u);
  }
}
static AMresult* map_put(AMdoc* d, AMobjId const* o, AMbyteSpan k, Val v) {
  switch (v.t) {
    case V_BOOL: return C(AMmapPutBool)(d, o, k, v.i != 0);
    case V_BYTES: return C(AMmapPutBytes)(d, o, k, v.s);
    case V_COUNTER: return C(AMmapPutCounter)(d, o, k, v.i);
    case V_F64: return C(AMmapPutF64)(d, o, k, v.d);
    case V_INT: return C(AMmapPutInt)(d, o, k, v.i);
    case V_NULL: return C(AMmapPutNull)(d, o, k);
    case V_STR: return C(AMmapPutStr)(d, o, k, v.s);
    case V_TS: return C(AMmapPutTimestamp)(d, o, k, v.i);
    default: return C(AMmapPutUint)(d, o, k, v.u);
  }
}
static AMresult* list_put(AMdoc* d, AMobjId const* o, size_t p, bool ins, Val v) {
  switch (v.t) {
    case V_BOOL: return C(AMlistPutBool)(d, o, p, ins, v.i != 0);
    case V_BYTES: return C(AMlistPutBytes)(d, o, p, ins, v.s);
    case V_COUNTER: return C(AMlistPutCounter)(d, o, p, ins, v.i);
    case V_F64: return C(AMlistPutF64)(d, o, p, ins, v.d);
    case V_INT: return C(AMlistPutInt)(d, o, p, ins, v.i);
    case V_NULL: return C(AMlistPutNull)(d, o, p, ins);
    case V_STR: return C(AMlistPutStr)(d, o, p, ins, v.s);
    case V_TS: return C(AMlistPutTimestamp)(d, o, p, ins, v.i);
    default: return C(AMlistPutUint)(d, o, p, ins, v.u);
  }
}
static AMobjType tobjtype(char const* t) {
  if (!strcmp(t, "map")) return AM_OBJ_TYPE_MAP;
  if (!strcmp(t, "list")) return AM_OBJ_TYPE_LIST;
  if (!strcmp(t, "text")) return AM_OBJ_TYPE_TEXT;
  harness_fail("bad obj type");
  return AM_OBJ_TYPE_DEFAULT;
}
static AMmarkExpand texpand(char const* t) {
  if (!strcmp(t, "none")) return AM_MARK_EXPAND_NONE;
  if (!strcmp(t, "before")) return AM_MARK_EXPAND_BEFORE;
  if (!strcmp(t, "after")) return AM_MARK_EXPAND_AFTER;
  if (!strcmp(t, "both")) return AM_MARK_EXPAND_BOTH;
  harness_fail("bad expand");
  return AM_MARK_EXPAND_DEFAULT;
}

/* Position resolution shared with the twin: raw R (or MAX) against the
 * object's current length.  *ins may be forced to true on an empty object. */
static size_t respos(AMdoc* d, AMobjId const* o, char const* t, bool* ins) {
  size_t len = C(AMobjSize)(d, o, NULL);
  if (len == 0) { *ins = true; return is_max(t) ? SIZE_MAX : 0; }
  if (is_max(t)) return SIZE_MAX;
  uint64_t r = tu64(t);
  return (size_t)(*ins ? r % (len + 1) : r % len);
}

#define NEED_DOC(var, i) AMdoc* var = tdoc(T(i)); if (!var) { skip(); return; }
#define NEED_OBJ(var, i) AMobjId const* var; if (!tobj(T(i), &var)) { skip(); return; }
#define NEED_HEADS(var, i) AMitems var##_st; AMitems const* var; if (!theads(T(i), &var##_st, &var)) { skip(); return; }
#define NEED_SLOT(var, i, kind) Slot* var = slot_of(thandle(T(i)), kind); if (!var) { skip(); return; }

/* result holding one obj item -> obs + optional store into dst */
static void finish_obj(AMresult* r, int dst, AMdoc* d) {
  obs_begin();
  if (rok(r)) {
    AMitem* it = C(AMresultItem)(r);
    printf(" OK ");
    g_dump_actor = dst < 0;
    dump_item(it, d);
    g_dump_actor = true;
    if (dst >= 0 && C(AMitemValType)(it) == AM_VAL_TYPE_OBJ_TYPE) {
      slot_set(dst, K_OBJ, r, C(AMitemObjId)(it));
      r = NULL;
    }
  } else printf(" ERR");
  obs_end();
  if (r) C(AMresultFree)(r);
}

static void op_map_put(void) {
  NEED_DOC(d, 1) NEED_OBJ(o, 2)
  finish_status(map_put(d, o, tspan(T(3)), tval(T(4))));
}
static void op_map_put_obj(void) {
  int dst = tdst(T(1)); NEED_DOC(d, 2) NEED_OBJ(o, 3)
  if (dst >= 0) slot_free(dst);
  finish_obj(C(AMmapPutObject)(d, o, tspan(T(4)), tobjtype(T(5))), dst, d);
}
static void op_list_put(void) {
  NEED_DOC(d, 1) NEED_OBJ(o, 2)
  bool ins = atoi(T(4)) != 0;
  size_t p = respos(d, o, T(3), &ins);
  finish_status(list_put(d, o, p, ins, tval(T(5))));
}
static void op_list_put_obj(void) {
  int dst = tdst(T(1)); NEED_DOC(d, 2) NEED_OBJ(o, 3)
  if (dst >= 0) slot_free(dst);
  bool ins = atoi(T(5)) != 0;
  size_t p = respos(d, o, T(4), &ins);
  finish_obj(C(AMlistPutObject)(d, o, p, ins, tobjtype(T(6))), dst, d);
}
static void op_map_inc(void) {
  NEED_DOC(d, 1) NEED_OBJ(o, 2)
  finish_status(C(AMmapIncrement)(d, o, tspan(T(3)), ti64(T(4))));
}
static void op_list_inc(void) {
  NEED_DOC(d, 1) NEED_OBJ(o, 2)
  bool ins = false; size_t p = respos(d, o, T(3), &ins);
  finish_status(C(AMlistIncrement)(d, o, p, ti64(T(4))));
}
static void op_map_del(void) {
  NEED_DOC(d, 1) NEED_OBJ(o, 2)
  finish_status(C(AMmapDelete)(d, o, tspan(T(3))));
}
static void op_list_del(void) {
  NEED_DOC(d, 1) NEED_OBJ(o, 2)
  bool ins = false; size_t p = respos(d, o, T(3), &ins);
  finish_status(C(AMlistDelete)(d, o, p));
}
static void op_mkitems(void) {
  int dst = tdst(T(1));
  AMresult* r = item_from(tval(T(2)));
  for (int i = 3; i < ntok; i++) {
    AMresult* t = item_from(tval(T(i)));
    AMresult* n = C(AMresultCat)(r, t);
    if (i & 1) { C(AMresultFree)(r); C(AMresultFree)(t); }
    else { C(AMresultFree)(t); C(AMresultFree)(r); }
    r = n;
  }
  obs_begin();
  if (rok(r)) { printf(" OK n=%zu", C(AMresultSize)(r)); slot_set(dst, K_ITEMS, r, NULL); }
  else { printf(" ERR"); C(AMresultFree)(r); }
  obs_end();
}
/* pos/del clipping shared with the twin */
static void clip_splice(size_t len, char const* tp, char const* td, size_t* pos, ptrdiff_t* del) {
  size_t p = is_max(tp) ? len : (size_t)(tu64(tp) % (len + 1));
  int64_t D = ti64(td);
  ptrdiff_t dl;
  if (D >= 0) dl = (ptrdiff_t)((uint64_t)D % (len - p + 1));
  else dl = -(ptrdiff_t)((uint64_t)(-D) % (p + 1));
  *pos = is_max(tp) ? SIZE_MAX : p;
  *del = dl;
}
static void op_splice(void) {
  NEED_DOC(d, 1) NEED_OBJ(o, 2)
  AMitems vals; memset(&vals, 0, sizeof vals);
  char const* tv = T(5);
  if (tv[0] == 'Z') { if (!opt_empty_items) { skip(); return; } }
  else {
    Slot* s = slot_of(thandle(tv), K_ITEMS);
    if (!s) { skip(); return; }
    vals = C(AMresultItems)(s->res);
  }
  size_t pos; ptrdiff_t del;
  clip_splice(C(AMobjSize)(d, o, NULL), T(3), T(4), &pos, &del);
  finish_status(C(AMsplice)(d, o, pos, del, vals));
}
static void op_splice_text(void) {
  NEED_DOC(d, 1) NEED_OBJ(o, 2)
  size_t pos; ptrdiff_t del;
  clip_splice(C(AMobjSize)(d, o, NULL), T(3), T(4), &pos, &del);
  finish_status(C(AMspliceText)(d, o, pos, del, tspan(T(5))));
}
static bool mark_range(AMdoc* d, AMobjId const* o, char const* t1, char const* t2, size_t* st, size_t* en) {
  size_t len = C(AMobjSize)(d, o, NULL);
  if (len == 0) return false;
  *st = (size_t)(tu64(t1) % len);
  *en = *st + 1 + (size_t)(tu64(t2) % (len - *st));
  return true;
}
static void op_mark(void) {
  NEED_DOC(d, 1) NEED_OBJ(o, 2)
  size_t st, en;
  if (!mark_range(d, o, T(3), T(4), &st, &en)) { skip(); return; }
  AMresult* vr = item_from(tval(T(7)));
  if (!rok(vr)) { C(AMresultFree)(vr); obs_line("ERR"); return; } /* never pass a NULL item */
  AMresult* r = C(AMmarkCreate)(d, o, st, en, texpand(T(5)), tspan(T(6)), C(AMresultItem)(vr));
  C(AMresultFree)(vr);
  finish_status(r);
}
static void op_unmark(void) {
  NEED_DOC(d, 1) NEED_OBJ(o, 2)
  size_t st, en;
  if (!mark_range(d, o, T(3), T(4), &st, &en)) { skip(); return; }
  finish_status(C(AMmarkClear)(d, o, st, en, texpand(T(5)), tspan(T(6))));
}
static void cb_mark(AMitem* it, void* ud) {
  (void)ud;
  AMmark const* m = NULL;
  if (!C(AMitemToMark)(it, &m)) { printf(" NOT-A-MARK"); return; }
  printf(" {");
  pb(C(AMmarkName)(m));
  printf(" %zu..%zu ", C(AMmarkStart)(m), C(AMmarkEnd)(m));
  AMresult* vr = C(AMmarkValue)(m);
  if (rok(vr)) dump_item(C(AMresultItem)(vr), NULL); else printf("ERR");
  C(AMresultFree)(vr);
  conv_check(it);
  putchar('}');
}
static void op_marks(void) {
  NEED_DOC(d, 1) NEED_OBJ(o, 2) NEED_HEADS(h, 3)
  AMresult* r = C(AMmarks)(d, o, h);
  obs_begin();
  if (rok(r)) { printf(" OK n=%zu", C(AMresultSize)(r)); iterate(r, "F", cb_mark, NULL); }
  else printf(" ERR");
  obs_end();
  C(AMresultFree)(r);
}
static void op_commit(bool empty) {
  NEED_DOC(d, 1)
  AMbyteSpan msg = tspan(T(2));
  int64_t ts = 0; int64_t const* tp = NULL;
  if (strcmp(T(3), "-")) { ts = ti64(T(3)); tp = &ts; }
  AMresult* r = empty ? C(AMemptyChange)(d, msg, tp) : C(AMcommit)(d, msg, tp);
  finish_items(r, "F", NULL);
}
static void op_rollback(void) {
  NEED_DOC(d, 1)
  obs_begin(); printf(" %zu", C(AMrollback)(d)); obs_end();
}
static void op_pending(void) {
  NEED_DOC(d, 1)
  obs_begin(); printf(" %zu", C(AMpendingOps)(d)); obs_end();
}
static void op_map_get(void) {
  int dst = tdst(T(1)); NEED_DOC(d, 2) NEED_OBJ(o, 3) NEED_HEADS(h, 5)
  if (dst >= 0) slot_free(dst);
  finish_obj(C(AMmapGet)(d, o, tspan(T(4)), h), dst, d);
}
static void op_list_get(void) {
  int dst = tdst(T(1)); NEED_DOC(d, 2) NEED_OBJ(o, 3) NEED_HEADS(h, 5)
  if (dst >= 0) slot_free(dst);
  bool ins = false; size_t p = respos(d, o, T(4), &ins);
  finish_obj(C(AMlistGet)(d, o, p, h), dst, d);
}
static void op_map_get_all(void) {
  NEED_DOC(d, 1) NEED_OBJ(o, 2) NEED_HEADS(h, 4)
  finish_items(C(AMmapGetAll)(d, o, tspan(T(3)), h), T(5), d);
}
static void op_list_get_all(void) {
  NEED_DOC(d, 1) NEED_OBJ(o, 2) NEED_HEADS(h, 4)
  bool ins = false; size_t p = respos(d, o, T(3), &ins);
  finish_items(C(AMlistGetAll)(d, o, p, h), T(5), d);
}
static void op_keys(void) {
  NEED_DOC(d, 1) NEED_OBJ(o, 2) NEED_HEADS(h, 3)
  finish_items(C(AMkeys)(d, o, h), T(4), d);
}
static void op_map_range(void) {
  NEED_DOC(d, 1) NEED_OBJ(o, 2) NEED_HEADS(h, 5)
  finish_items(C(AMmapRange)(d, o, tspan(T(3)), tspan(T(4)), h), T(6), d);
}
static void op_list_range(void) {
  NEED_DOC(d, 1) NEED_OBJ(o, 2) NEED_HEADS(h, 5)
  size_t b = is_max(T(3)) ? SIZE_MAX : (size_t)tu64(T(3));
  size_t e = is_max(T(4)) ? SIZE_MAX : (size_t)tu64(T(4));
  finish_items(C(AMlistRange)(d, o, b, e, h), T(6), d);
}
static void op_obj_items(void) {
  NEED_DOC(d, 1) NEED_OBJ(o, 2) NEED_HEADS(h, 3)
  finish_items(C(AMobjItems)(d, o, h), T(4), d);
}
static void op_text(void) {
  NEED_DOC(d, 1) NEED_OBJ(o, 2) NEED_HEADS(h, 3)
  finish_items(C(AMtext)(d, o, h), "F", d);
}
static void op_size(void) {
  NEED_DOC(d, 1) NEED_OBJ(o, 2) NEED_HEADS(h, 3)
  obs_begin(); printf(" %zu", C(AMobjSize)(d, o, h)); obs_end();
}
static void op_obj_type(void) {
  NEED_DOC(d, 1) NEED_OBJ(o, 2)
  obs_begin(); printf(" %d", (int)C(AMobjObjType)(d, o)); obs_end();
}
static void op_obj_info(void) {
  NEED_SLOT(s, 1, K_OBJ)
  obs_begin(); putchar(' ');
  print_objid((AMobjId const*)s->ptr, true);
  s->actor_queried = true;
  obs_end();
}
static void op_obj_equal(void) {
  NEED_SLOT(a, 1, K_OBJ) NEED_SLOT(b, 2, K_OBJ)
  if ((a->actor_queried || b->actor_queried) && !opt_objid_cache_eq) { skip(); return; }
  obs_begin(); printf(" %d", C(AMobjIdEqual)((AMobjId const*)a->ptr, (AMobjId const*)b->ptr) ? 1 : 0); obs_end();
}
