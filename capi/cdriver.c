/* cdriver.c -- C36 driver: executes a script (see README.md) through the real
 * automerge C ABI and prints one observation line per op.  Every byte of every
 * returned span is read; everything owned is freed before exit.
 * usage: cdriver <script> [calls-out-file] */
#include "cdriver_a.h"
#include "cdriver_b.h"

/* ---------- actors / docs ---------- */
static void store_actor(AMresult* r, int dst) {
  obs_begin();
  AMactorId const* a = NULL;
  if (rok(r) && C(AMitemToActorId)(C(AMresultItem)(r), &a)) {
    printf(" OK "); print_actor(a); putchar(' '); pb(C(AMactorIdBytes)(a));
    slot_set(dst, K_ACTOR, r, a);
  } else { printf(" ERR"); C(AMresultFree)(r); }
  obs_end();
}
static void op_actor_bytes(void) {
  int dst = tdst(T(1)); slot_free(dst);
  AMbyteSpan s = tspan(T(2));
  store_actor(C(AMactorIdFromBytes)(s.src, s.count), dst);
}
static void op_actor_str(void) {
  int dst = tdst(T(1)); slot_free(dst);
  store_actor(C(AMactorIdFromStr)(tspan(T(2))), dst);
}
static void op_actor_info(void) {
  NEED_SLOT(a, 1, K_ACTOR)
  obs_begin(); putchar(' '); print_actor(a->ptr); putchar(' '); pb(C(AMactorIdBytes)(a->ptr)); obs_end();
}
static void op_actor_cmp(void) {
  NEED_SLOT(a, 1, K_ACTOR) NEED_SLOT(b, 2, K_ACTOR)
  obs_begin(); printf(" %d", C(AMactorIdCmp)(a->ptr, b->ptr)); obs_end();
}
static void store_doc(AMresult* r, int dst, AMactorId const* actor) {
  obs_begin();
  AMdoc* d = NULL;
  if (rok(r) && C(AMitemToDoc)(C(AMresultItem)(r), &d)) {
    printf(" OK");
    if (actor) {
      AMresult* sr = C(AMsetActorId)(d, actor);
      if (!rok(sr)) printf(" SETACTOR-ERR");
      C(AMresultFree)(sr);
    }
    slot_set(dst, K_DOC, r, d);
  } else { printf(" ERR"); C(AMresultFree)(r); }
  obs_end();
}
static void op_create(void) {
  int dst = tdst(T(1)); NEED_SLOT(a, 2, K_ACTOR)
  slot_free(dst);
  store_doc(C(AMcreate)(a->ptr), dst, NULL);
}
static void op_clone(void) {
  int dst = tdst(T(1)); NEED_DOC(d, 2)
  if (slots[dst].kind == K_DOC && slots[dst].ptr == d) { skip(); return; }
  AMresult* r = C(AMclone)(d);
  slot_free(dst);
  store_doc(r, dst, NULL);
}
static void op_fork(void) {
  int dst = tdst(T(1)); NEED_DOC(d, 2) NEED_SLOT(a, 3, K_ACTOR) NEED_HEADS(h, 4)
  if (slots[dst].kind == K_DOC && slots[dst].ptr == d) { skip(); return; }
  AMresult* r = C(AMfork)(d, h);
  slot_free(dst);
  store_doc(r, dst, a->ptr);
}
static void op_set_actor(void) {
  NEED_DOC(d, 1) NEED_SLOT(a, 2, K_ACTOR)
  finish_status(C(AMsetActorId)(d, a->ptr));
}
static void op_get_actor(void) {
  NEED_DOC(d, 1)
  finish_items(C(AMgetActorId)(d), "F", NULL);
}
static void op_free(void) {
  int h = thandle(T(1));
  if (slots[h].kind == K_EMPTY) { skip(); return; }
  slot_free(h);
  obs_line("OK");
}

/* ---------- heads / changes ---------- */
static void store_list(AMresult* r, int dst, Kind k, char const* mode) {
  obs_begin();
  if (rok(r)) {
    printf(" OK n=%zu", C(AMresultSize)(r));
    iterate(r, mode, cb_dump, NULL);
    slot_set(dst, k, r, NULL);
  } else { printf(" ERR"); C(AMresultFree)(r); }
  obs_end();
}
static void op_heads(void) {
  int dst = tdst(T(1)); NEED_DOC(d, 2)
  AMresult* r = C(AMgetHeads)(d); slot_free(dst);
  store_list(r, dst, K_HASHES, "F");
}
static void op_changes(void) {
  int dst = tdst(T(1)); NEED_DOC(d, 2) NEED_HEADS(h, 3)
  AMresult* r = C(AMgetChanges)(d, h); slot_free(dst);
  store_list(r, dst, K_CHANGES, "F");
}
static void op_changes_added(void) {
  int dst = tdst(T(1)); NEED_DOC(a, 2) NEED_DOC(b, 3)
  if (a == b) { skip(); return; }
  AMresult* r = C(AMgetChangesAdded)(a, b); slot_free(dst);
  store_list(r, dst, K_CHANGES, "F");
}
static AMitem* nth_item(AMresult* r, uint64_t raw) {
  size_t n = C(AMresultSize)(r);
  if (!n) return NULL;
  AMitems it = C(AMresultItems)(r);
  C(AMitemsAdvance)(&it, (ptrdiff_t)(raw % n));
  return C(AMitemsNext)(&it, 1);
}
static void op_change_by_hash(void) {
  int dst = tdst(T(1)); NEED_DOC(d, 2) NEED_SLOT(hs, 3, K_HASHES)
  AMitem* it = nth_item(hs->res, tu64(T(4)));
  AMbyteSpan h;
  if (!it || !C(AMitemToChangeHash)(it, &h)) { skip(); return; }
  AMresult* r = C(AMgetChangeByHash)(d, h.src, h.count); slot_free(dst);
  store_list(r, dst, K_CHANGES, "F");
}
static void op_last_local(void) {
  int dst = tdst(T(1)); NEED_DOC(d, 2)
  AMresult* r = C(AMgetLastLocalChange)(d); slot_free(dst);
  store_list(r, dst, K_CHANGES, "F");
}
static void op_missing_deps(void) {
  NEED_DOC(d, 1) NEED_HEADS(h, 2)
  finish_items(C(AMgetMissingDeps)(d, h), "F", NULL);
}
static void op_apply(void) {
  NEED_DOC(d, 1) NEED_SLOT(cs, 2, K_CHANGES)
  if (C(AMresultSize)(cs->res) == 0 && !opt_empty_items) { skip(); return; }
  AMitems it = C(AMresultItems)(cs->res);
  finish_status(C(AMapplyChanges)(d, &it));
}
static void cb_hash(AMitem* it, void* ud) {
  (void)ud; AMbyteSpan h = {0, 0};
  putchar(' ');
  if (C(AMitemToChangeHash)(it, &h)) pb(h); else printf("NOT-A-HASH");
}
static void print_change(AMchange* c) {
  printf("hash="); pb(C(AMchangeHash)(c));
  printf(" seq=%" PRIu64, C(AMchangeSeq)(c));
  AMresult* ar = C(AMchangeActorId)(c);
  AMactorId const* a = NULL;
  printf(" actor=");
  if (rok(ar) && C(AMitemToActorId)(C(AMresultItem)(ar), &a)) print_actor(a); else printf("ERR");
  C(AMresultFree)(ar);
  printf(" start=%" PRIu64 " max=%" PRIu64 " time=%" PRId64, C(AMchangeStartOp)(c), C(AMchangeMaxOp)(c), C(AMchangeTime)(c));
  printf(" msg="); pb(C(AMchangeMessage)(c));
  printf(" deps=[");
  AMresult* dr = C(AMchangeDeps)(c);
  if (rok(dr)) iterate(dr, "F", cb_hash, NULL); else printf("ERR");
  C(AMresultFree)(dr);
  printf(" ] empty=%d size=%zu raw=", C(AMchangeIsEmpty)(c) ? 1 : 0, C(AMchangeSize)(c));
  pb(C(AMchangeRawBytes)(c));
  printf(" extra="); pb(C(AMchangeExtraBytes)(c));
  /* the hash is cached inside the AMchange: ask again and re-read both spans */
  touch(C(AMchangeHash)(c));
}
static void cb_change(AMitem* it, void* ud) {
  (void)ud;
  printf(" {");
  size_t rc = C(AMitemRefCount)(it);
  AMchange* c = NULL;
  if (C(AMitemValType)(it) == AM_VAL_TYPE_VOID) printf("void");
  else if (rc > 1) printf("shared rc=%zu", rc);
  else if (C(AMitemToChange)(it, &c)) print_change(c);
  else printf("NOT-A-CHANGE");
  putchar('}');
}
static void op_change_info(void) {
  NEED_SLOT(cs, 1, K_CHANGES)
  obs_begin(); printf(" n=%zu", C(AMresultSize)(cs->res));
  iterate(cs->res, T(2), cb_change, NULL);
  obs_end();
}
static void cb_compress(AMitem* it, void* ud) {
  (void)ud; AMchange* c = NULL;
  if (C(AMitemRefCount)(it) == 1 && C(AMitemToChange)(it, &c)) {
    C(AMchangeCompress)(c);
    putchar(' '); pb(C(AMchangeRawBytes)(c));
  } else printf(" -");
}
static void op_change_compress(void) {
  NEED_SLOT(cs, 1, K_CHANGES)
  obs_begin(); iterate(cs->res, "F", cb_compress, NULL); obs_end();
}
static void op_change_rt(void) {
  int dst = tdst(T(1)); NEED_SLOT(cs, 2, K_CHANGES)
  AMitem* it = nth_item(cs->res, tu64(T(3)));
  AMchange* c = NULL;
  if (!it || C(AMitemRefCount)(it) != 1 || !C(AMitemToChange)(it, &c)) { skip(); return; }
  AMbyteSpan raw = C(AMchangeRawBytes)(c);
  AMresult* r = C(AMchangeFromBytes)(raw.src, raw.count);
  slot_free(dst); /* may free cs itself: raw is dead after this */
  store_list(r, dst, K_CHANGES, "F");
}
static bool slot_bytes(Slot* s, AMbyteSpan* out) {
  return C(AMitemToBytes)(C(AMresultItem)(s->res), out);
}
static void op_load_changes(void) {
  int dst = tdst(T(1)); NEED_SLOT(b, 2, K_BYTES)
  AMbyteSpan s; if (!slot_bytes(b, &s)) { skip(); return; }
  AMresult* r = C(AMchangeLoadDocument)(s.src, s.count);
  slot_free(dst);
  store_list(r, dst, K_CHANGES, "F");
}
static void op_merge(void) {
  NEED_DOC(a, 1) NEED_DOC(b, 2)
  if (a == b) { skip(); return; }
  finish_items(C(AMmerge)(a, b), "F", NULL);
}
static void op_equal(void) {
  NEED_DOC(a, 1) NEED_DOC(b, 2)
  if (a == b) { skip(); return; }
  obs_begin(); printf(" %d", C(AMequal)(a, b) ? 1 : 0); obs_end();
}
static void store_bytes(AMresult* r, int dst) {
  obs_begin();
  AMbyteSpan s;
  if (rok(r) && C(AMitemToBytes)(C(AMresultItem)(r), &s)) {
    printf(" OK "); pb(s); conv_check(C(AMresultItem)(r));
    slot_set(dst, K_BYTES, r, NULL);
  } else { printf(" ERR"); C(AMresultFree)(r); }
  obs_end();
}
static void op_save(bool inc) {
  int dst = tdst(T(1)); NEED_DOC(d, 2)
  AMresult* r = inc ? C(AMsaveIncremental)(d) : C(AMsave)(d);
  slot_free(dst);
  store_bytes(r, dst);
}
static void op_load(void) {
  int dst = tdst(T(1)); NEED_SLOT(b, 2, K_BYTES) NEED_SLOT(a, 3, K_ACTOR)
  AMbyteSpan s; if (!slot_bytes(b, &s)) { skip(); return; }
  AMresult* r = C(AMload)(s.src, s.count);
  slot_free(dst);
  store_doc(r, dst, a->ptr);
}
static void op_load_inc(void) {
  NEED_DOC(d, 1) NEED_SLOT(b, 2, K_BYTES)
  AMbyteSpan s; if (!slot_bytes(b, &s)) { skip(); return; }
  finish_items(C(AMloadIncremental)(d, s.src, s.count), "F", NULL);
}
static void op_bytes_info(void) {
  NEED_SLOT(b, 1, K_BYTES)
  AMbyteSpan s; if (!slot_bytes(b, &s)) { skip(); return; }
  obs_begin(); putchar(' '); pb(s); obs_end();
}

#include "cdriver_c.h"
