/* cdriver_a.h -- part 1 of the C36 C driver: infrastructure (slots, tokens,
 * printing, item dumping).  Included by cdriver.c only. */
#include <ctype.h>
#include <inttypes.h>
#include <stdbool.h>
#include <stdint.h>
#include <stdio.h>
#include <stdlib.h>
#include <string.h>

#include <automerge-c/automerge.h>

typedef enum {
  K_EMPTY = 0, K_ACTOR, K_DOC, K_OBJ, K_HASHES, K_CHANGES, K_BYTES,
  K_CURSOR, K_SYNC, K_MSG, K_ITEMS
} Kind;

typedef struct {
  Kind kind;
  AMresult* res;   /* owner */
  void const* ptr; /* borrowed typed pointer (doc, obj id, actor, ...) */
  bool actor_queried; /* K_OBJ: AMobjIdActorId() was called on it */
} Slot;

#define NSLOTS 512
static Slot slots[NSLOTS];

/* options (set by "opt NAME V" lines) */
static int opt_empty_items = 0, opt_cursor_twice = 0, opt_unaligned_items = 0,
           opt_objid_cache_eq = 0;

static volatile uint64_t g_sink = 0; /* every byte we are handed is read into this */
static unsigned long g_calls[256];   /* per API function call counters */
static char const* g_call_names[256];
static int g_ncall_names = 0;
static int g_lineno = 0;
static char const* g_op = "";
static FILE* g_calls_out = NULL;

static int call_id(char const* name) {
  for (int i = 0; i < g_ncall_names; i++)
    if (g_call_names[i] == name || strcmp(g_call_names[i], name) == 0) return i;
  g_call_names[g_ncall_names] = name;
  return g_ncall_names++;
}
/* CALL(AMfoo(args)) counts the call by name */
#define C(fn) (g_calls[call_id(#fn)]++, fn)

/* ---------- per-line arena ---------- */
static void* g_arena[64];
static int g_narena = 0;
static void* arena_alloc(size_t n) {
  void* p = malloc(n ? n : 1);
  if (!p) { fprintf(stderr, "cdriver: oom\n"); exit(3); }
  if (g_narena >= 64) { fprintf(stderr, "cdriver: arena overflow\n"); exit(3); }
  g_arena[g_narena++] = p;
  return p;
}
static void arena_reset(void) {
  for (int i = 0; i < g_narena; i++) free(g_arena[i]);
  g_narena = 0;
}

/* ---------- tokens ---------- */
#define MAXTOK 80
static char* tok[MAXTOK];
static int ntok = 0;

static void harness_fail(char const* why) {
  fprintf(stderr, "cdriver: harness error at line %d (%s): %s\n", g_lineno, g_op, why);
  exit(3);
}
static char const* T(int i) {
  if (i >= ntok) harness_fail("missing token");
  return tok[i];
}
static int hexval(int c) {
  if (c >= '0' && c <= '9') return c - '0';
  if (c >= 'a' && c <= 'f') return c - 'a' + 10;
  if (c >= 'A' && c <= 'F') return c - 'A' + 10;
  return -1;
}
/* "=hex" -> exact-size heap buffer (so ASan sees over-reads); "-" -> NULL span */
static AMbyteSpan tspan(char const* t) {
  AMbyteSpan s = {NULL, 0};
  if (t[0] == '-' && t[1] == 0) return s;
  if (t[0] != '=') harness_fail("bad span token");
  size_t n = strlen(t + 1);
  if (n % 2) harness_fail("odd hex");
  uint8_t* b = arena_alloc(n / 2);
  for (size_t i = 0; i < n / 2; i++) {
    int h = hexval(t[1 + 2 * i]), l = hexval(t[2 + 2 * i]);
    if (h < 0 || l < 0) harness_fail("bad hex");
    b[i] = (uint8_t)(h * 16 + l);
  }
  s.src = b;
  s.count = n / 2;
  return s;
}
static int thandle(char const* t) { /* -1 for "-" */
  if (t[0] == '-' && t[1] == 0) return -1;
  char* e;
  long v = strtol(t, &e, 10);
  if (*e || v < 0 || v >= NSLOTS) harness_fail("bad handle");
  return (int)v;
}
/* destination handle: must be an empty slot (the generator guarantees it) */
static int tdst(char const* t) {
  int h = thandle(t);
  if (h >= 0 && slots[h].kind != K_EMPTY) harness_fail("dst slot occupied");
  return h;
}
static bool is_max(char const* t) { return strcmp(t, "MAX") == 0; }
static uint64_t tu64(char const* t) { return strtoull(t, NULL, 10); }
static int64_t ti64(char const* t) { return strtoll(t, NULL, 10); }

/* ---------- output ---------- */
static void obs_begin(void) { printf("%d %s", g_lineno, g_op); }
static void obs_end(void) { putchar('\n'); }
static void obs_line(char const* s) { obs_begin(); printf(" %s", s); obs_end(); }

static uint64_t fnv(uint8_t const* p, size_t n) {
  uint64_t h = 0xcbf29ce484222325ULL;
  for (size_t i = 0; i < n; i++) { h ^= p[i]; h *= 0x100000001b3ULL; }
  return h;
}
static void touch(AMbyteSpan s) {
  if (s.src) g_sink += fnv(s.src, s.count);
}
/* B(span): "-" null, "x<hex>" if <=40 bytes, else "#len:fnv" */
static void pb(AMbyteSpan s) {
  if (!s.src) { printf("-"); return; }
  if (s.count <= 40) {
    putchar('x');
    for (size_t i = 0; i < s.count; i++) printf("%02x", s.src[i]);
    g_sink += s.count;
  } else {
    printf("#%zu:%016" PRIx64, s.count, fnv(s.src, s.count));
  }
}

/* ---------- slots ---------- */
static Slot* slot_of(int h, Kind k) {
  if (h < 0) return NULL;
  Slot* s = &slots[h];
  return s->kind == k ? s : NULL;
}
static void slot_free(int h) {
  Slot* s = &slots[h];
  if (s->kind != K_EMPTY) {
    C(AMresultFree)(s->res);
    memset(s, 0, sizeof *s);
  }
}
static void slot_set(int h, Kind k, AMresult* r, void const* p) {
  if (h < 0) harness_fail("dst handle required");
  slot_free(h);
  slots[h].kind = k;
  slots[h].res = r;
  slots[h].ptr = p;
  slots[h].actor_queried = false;
}
static AMdoc* tdoc(char const* t) {
  Slot* s = slot_of(thandle(t), K_DOC);
  return s ? (AMdoc*)s->ptr : NULL;
}
/* obj token: "R" root; handle of K_OBJ. returns false if invalid */
static bool tobj(char const* t, AMobjId const** out) {
  if (t[0] == 'R' && t[1] == 0) { *out = AM_ROOT; return true; }
  Slot* s = slot_of(thandle(t), K_OBJ);
  if (!s) return false;
  *out = (AMobjId const*)s->ptr;
  return true;
}
/* heads token: "-" => NULL (current).  Returns false => op must be skipped
 * (wrong kind, or empty result and opt_empty_items off). */
static bool theads(char const* t, AMitems* storage, AMitems const** out) {
  if (t[0] == '-' && t[1] == 0) { *out = NULL; return true; }
  Slot* s = slot_of(thandle(t), K_HASHES);
  if (!s) return false;
  if (C(AMresultSize)(s->res) == 0 && !opt_empty_items) return false;
  *storage = C(AMresultItems)(s->res);
  *out = storage;
  return true;
}

/* status check: true if OK; on error reads the whole message */
static bool rok(AMresult* r) {
  AMstatus st = C(AMresultStatus)(r);
  if (st == AM_STATUS_OK) return true;
  touch(C(AMresultError)(r));
  return false;
}

/* ---------- item dumping ---------- */
static void print_actor(AMactorId const* a) {
  if (!a) { printf("?"); return; }
  AMbyteSpan s = C(AMactorIdStr)(a);
  for (size_t i = 0; i < s.count; i++) putchar(s.src[i]);
  touch(C(AMactorIdBytes)(a));
}
static void print_objid(AMobjId const* o, bool with_actor) {
  if (!o) { printf("-"); return; }
  uint64_t c = C(AMobjIdCounter)(o);
  size_t idx = C(AMobjIdIndex)(o);
  if (c == 0) { printf("o0"); return; }
  printf("o%" PRIu64 "@", c);
  if (with_actor) print_actor(C(AMobjIdActorId)(o)); else printf("_");
  printf(":%zu", idx);
}

/* Calls every AMitemTo*; exactly the one matching the value type may succeed. */
static void conv_check(AMitem* it) {
  AMvalType vt = C(AMitemValType)(it);
  uint32_t mask = 0, expect = 0;
  size_t rc = C(AMitemRefCount)(it);
  { AMactorId const* v; if (C(AMitemToActorId)(it, &v)) mask |= AM_VAL_TYPE_ACTOR_ID; }
  { bool v; if (C(AMitemToBool)(it, &v)) mask |= AM_VAL_TYPE_BOOL; }
  { AMbyteSpan v; if (C(AMitemToBytes)(it, &v)) { mask |= AM_VAL_TYPE_BYTES; touch(v); } }
  { AMchange* v; if (C(AMitemToChange)(it, &v)) mask |= AM_VAL_TYPE_CHANGE; }
  { AMbyteSpan v; if (C(AMitemToChangeHash)(it, &v)) { mask |= AM_VAL_TYPE_CHANGE_HASH; touch(v); } }
  { int64_t v; if (C(AMitemToCounter)(it, &v)) mask |= AM_VAL_TYPE_COUNTER; }
  { AMcursor const* v; if (C(AMitemToCursor)(it, &v)) mask |= AM_VAL_TYPE_CURSOR; }
  { AMdoc* v; if (C(AMitemToDoc)(it, &v)) mask |= AM_VAL_TYPE_DOC; }
  { double v; if (C(AMitemToF64)(it, &v)) mask |= AM_VAL_TYPE_F64; }
  { int64_t v; if (C(AMitemToInt)(it, &v)) mask |= AM_VAL_TYPE_INT; }
  { AMmark const* v; if (C(AMitemToMark)(it, &v)) mask |= AM_VAL_TYPE_MARK; }
  { AMbyteSpan v; if (C(AMitemToStr)(it, &v)) { mask |= AM_VAL_TYPE_STR; touch(v); } }
  { AMsyncHave const* v; if (C(AMitemToSyncHave)(it, &v)) mask |= AM_VAL_TYPE_SYNC_HAVE; }
  { AMsyncMessage const* v; if (C(AMitemToSyncMessage)(it, &v)) mask |= AM_VAL_TYPE_SYNC_MESSAGE; }
  { AMsyncState* v; if (C(AMitemToSyncState)(it, &v)) mask |= AM_VAL_TYPE_SYNC_STATE; }
  { int64_t v; if (C(AMitemToTimestamp)(it, &v)) mask |= AM_VAL_TYPE_TIMESTAMP; }
  { uint64_t v; if (C(AMitemToUint)(it, &v)) mask |= AM_VAL_TYPE_UINT; }
  { AMunknownValue v; if (C(AMitemToUnknown)(it, &v)) mask |= AM_VAL_TYPE_UNKNOWN; }
  switch (vt) {
    case AM_VAL_TYPE_VOID: case AM_VAL_TYPE_NULL: case AM_VAL_TYPE_OBJ_TYPE: case AM_VAL_TYPE_DEFAULT:
      expect = 0; break;
    default: expect = (uint32_t)vt;
  }
  /* the three conversions that need exclusive access fail by design on a shared item */
  uint32_t excl = AM_VAL_TYPE_CHANGE | AM_VAL_TYPE_DOC | AM_VAL_TYPE_SYNC_STATE;
  if (rc > 1) { mask &= ~excl; expect &= ~excl; }
  if (mask == expect) printf(";c=ok"); else printf(";c=BAD:%x:%x", mask, expect);
}

static void print_f64(double d) {
  uint64_t b; memcpy(&b, &d, 8);
  printf("f%016" PRIx64, b);
}

/* [idx;obj;val;c=ok]; g_dump_actor=false keeps AMobjIdActorId() off ids we store */
static bool g_dump_actor = true;
static void dump_item(AMitem* it, AMdoc const* doc) {
  putchar('[');
  AMidxType ix = C(AMitemIdxType)(it);
  AMbyteSpan key; size_t pos;
  bool gk = C(AMitemKey)(it, &key), gp = C(AMitemPos)(it, &pos);
  if (ix == AM_IDX_TYPE_KEY && gk && !gp) { putchar('k'); pb(key); }
  else if (ix == AM_IDX_TYPE_POS && gp && !gk) printf("p%zu", pos);
  else if (ix == AM_IDX_TYPE_DEFAULT && !gk && !gp) putchar('-');
  else printf("IDX-INCONSISTENT:%d:%d:%d", (int)ix, gk, gp);
  putchar(';');
  AMobjId const* oid = C(AMitemObjId)(it);
  print_objid(oid, g_dump_actor);
  putchar(';');
  AMvalType vt = C(AMitemValType)(it);
  switch (vt) {
    case AM_VAL_TYPE_VOID: printf("void"); break;
    case AM_VAL_TYPE_BOOL: { bool v = 0; C(AMitemToBool)(it, &v); printf("b%d", v ? 1 : 0); break; }
    case AM_VAL_TYPE_BYTES: { AMbyteSpan v = {0, 0}; C(AMitemToBytes)(it, &v); putchar('y'); pb(v); break; }
    case AM_VAL_TYPE_COUNTER: { int64_t v = 0; C(AMitemToCounter)(it, &v); printf("c%" PRId64, v); break; }
    case AM_VAL_TYPE_F64: { double v = 0; C(AMitemToF64)(it, &v); print_f64(v); break; }
    case AM_VAL_TYPE_INT: { int64_t v = 0; C(AMitemToInt)(it, &v); printf("i%" PRId64, v); break; }
    case AM_VAL_TYPE_NULL: printf("null"); break;
    case AM_VAL_TYPE_OBJ_TYPE:
      if (doc) printf("obj%d", (int)C(AMobjObjType)(doc, oid)); else printf("obj");
      break;
    case AM_VAL_TYPE_STR: { AMbyteSpan v = {0, 0}; C(AMitemToStr)(it, &v); putchar('s'); pb(v); break; }
    case AM_VAL_TYPE_TIMESTAMP: { int64_t v = 0; C(AMitemToTimestamp)(it, &v); printf("t%" PRId64, v); break; }
    case AM_VAL_TYPE_UINT: { uint64_t v = 0; C(AMitemToUint)(it, &v); printf("u%" PRIu64, v); break; }
    case AM_VAL_TYPE_UNKNOWN: { AMunknownValue v; memset(&v, 0, sizeof v); C(AMitemToUnknown)(it, &v); printf("?%u:", (unsigned)v.type_code); pb(v.bytes); break; }
    case AM_VAL_TYPE_CHANGE_HASH: { AMbyteSpan v = {0, 0}; C(AMitemToChangeHash)(it, &v); putchar('h'); pb(v); break; }
    case AM_VAL_TYPE_ACTOR_ID: { AMactorId const* v = NULL; C(AMitemToActorId)(it, &v); putchar('a'); print_actor(v); break; }
    case AM_VAL_TYPE_CHANGE: printf("change"); break;
    case AM_VAL_TYPE_CURSOR: printf("cursor"); break;
    case AM_VAL_TYPE_DOC: printf("doc"); break;
    case AM_VAL_TYPE_MARK: printf("mark"); break;
    case AM_VAL_TYPE_SYNC_HAVE: printf("have"); break;
    case AM_VAL_TYPE_SYNC_MESSAGE: printf("msg"); break;
    case AM_VAL_TYPE_SYNC_STATE: printf("sync"); break;
    default: printf("VT%d", (int)vt);
  }
  conv_check(it);
  putchar(']');
}

/* Iterates r's items in MODE, calling cb for each.  Modes: F fwd, R reversed,
 * S<k> stride k, B advance-to-end then Prev, W next,next,rewound,all,
 * U forward with the AMitems struct at an odd address (only if opt on). */
typedef void (*item_cb)(AMitem*, void*);
static void iterate(AMresult* r, char const* mode, item_cb cb, void* ud) {
  size_t n = C(AMresultSize)(r);
  AMitems it = C(AMresultItems)(r);
  if (C(AMitemsSize)(&it) != n) printf(" SIZE-MISMATCH");
  AMitem* x;
  switch (mode[0]) {
    case 'R': {
      AMitems rv = C(AMitemsReversed)(&it);
      while ((x = C(AMitemsNext)(&rv, 1))) cb(x, ud);
      break;
    }
    case 'S': {
      ptrdiff_t k = atoi(mode + 1); if (k < 1) k = 1;
      while ((x = C(AMitemsNext)(&it, k))) cb(x, ud);
      break;
    }
    case 'B': {
      C(AMitemsAdvance)(&it, (ptrdiff_t)n);
      while ((x = C(AMitemsPrev)(&it, 1))) cb(x, ud);
      break;
    }
    case 'W': {
      for (int i = 0; i < 2; i++) if ((x = C(AMitemsNext)(&it, 1))) cb(x, ud);
      AMitems rw = C(AMitemsRewound)(&it);
      while ((x = C(AMitemsNext)(&rw, 1))) cb(x, ud);
      break;
    }
    case 'U':
      if (opt_unaligned_items) {
        struct { char pad; AMitems it; } s; /* AMitems has alignment 1 in automerge.h */
        memcpy(&s.it, &it, sizeof it);
        while ((x = C(AMitemsNext)(&s.it, 1))) cb(x, ud);
        break;
      }
      /* fallthrough */
    default:
      while ((x = C(AMitemsNext)(&it, 1))) cb(x, ud);
  }
}
static void cb_dump(AMitem* it, void* ud) { putchar(' '); dump_item(it, (AMdoc const*)ud); }
/* prints " OK n=<size> <items...>" or " ERR", frees r */
static void finish_items(AMresult* r, char const* mode, AMdoc const* doc) {
  obs_begin();
  if (rok(r)) {
    printf(" OK n=%zu", C(AMresultSize)(r));
    iterate(r, mode, cb_dump, (void*)doc);
  } else printf(" ERR");
  obs_end();
  C(AMresultFree)(r);
}
static void finish_status(AMresult* r) {
  obs_line(rok(r) ? "OK" : "ERR");
  C(AMresultFree)(r);
}
static void skip(void) { obs_line("skip"); }
