//! Twin of cdriver.c / cdriver_c.h: actors, docs, changes, cursors, sync, result ops.
use crate::ops_doc::{need, need_heads};
use crate::util::*;
use crate::Tw;
use automerge as am;
use am::sync::SyncDoc;
use am::{ActorId, AutoCommit, Change, ChangeHash, Cursor, ReadDoc};
use std::rc::Rc;
use std::str::FromStr;

fn elems<T>(v: impl IntoIterator<Item = T>, f: impl Fn(T) -> Elem) -> Vec<Rc<Elem>> {
    v.into_iter().map(|x| Rc::new(f(x))).collect()
}

/// mirrors store_list(): " OK n=.. items" + store
fn store_list(tw: &mut Tw, dst: usize, k: LKind, v: Vec<Rc<Elem>>) {
    let mut s = format!(" OK n={}", v.len());
    for e in &v {
        s.push(' ');
        s.push_str(&fmt_elem(e));
    }
    tw.obs(&s);
    tw.slots[dst] = Slot::List(k, v);
}

fn store_doc(tw: &mut Tw, dst: usize, r: Result<AutoCommit, ()>, actor: Option<ActorId>) {
    match r {
        Ok(mut d) => {
            if let Some(a) = actor {
                d.set_actor(a);
            }
            tw.obs(" OK");
            tw.slots[dst] = Slot::Doc(Box::new(d));
        }
        Err(()) => tw.obs(" ERR"),
    }
}

fn actor_of(tw: &Tw, i: usize) -> Option<ActorId> {
    match &tw.slots[thandle(tw.tok(i))?] {
        Slot::Actor(a) => Some(a.clone()),
        _ => None,
    }
}

fn fmt_cursor(c: &Cursor) -> String {
    format!("s{} b{}", pb(Some(c.to_string().as_bytes())), pb(Some(&c.to_bytes())))
}
fn store_cursor(tw: &mut Tw, dst: usize, r: Result<Cursor, ()>) {
    match r {
        Ok(c) => {
            tw.obs(&format!(" OK {};c=ok", fmt_cursor(&c)));
            tw.slots[dst] = Slot::Cursor(c);
        }
        Err(()) => tw.obs(" ERR"),
    }
}

fn fmt_change(c: &Change) -> String {
    let mut s = format!(
        "hash={} seq={} actor={} start={} max={} time={} msg={} deps=[",
        pb(Some(&c.hash().0)),
        c.seq(),
        c.actor_id().to_hex_string(),
        c.start_op(),
        c.max_op(),
        c.timestamp(),
        pb(c.message().map(|m| m.as_bytes()))
    );
    for d in c.deps() {
        s.push(' ');
        s.push_str(&pb(Some(&d.0)));
    }
    s.push_str(&format!(
        " ] empty={} size={} raw={} extra={}",
        c.is_empty() as i32,
        c.len(),
        pb(Some(c.raw_bytes())),
        pb(Some(c.extra_bytes()))
    ));
    s
}

fn fmt_haves(hs: &[am::sync::Have]) -> String {
    let mut s = String::new();
    for h in hs {
        s.push_str(&fmt_hashes("have", &h.last_sync));
        s.push_str(";c=ok");
    }
    s
}
fn fmt_msg(m: &am::sync::Message) -> String {
    format!("{}{} haves{{{} }}", fmt_hashes("heads", &m.heads), fmt_hashes("needs", &m.need), fmt_haves(&m.have))
}
fn store_msg(tw: &mut Tw, dst: usize, m: Result<Option<am::sync::Message>, ()>) {
    match m {
        Err(()) => tw.obs(" ERR"),
        Ok(None) => tw.obs(" none;c=ok"),
        Ok(Some(m)) => {
            tw.obs(&format!(" msg{};c=ok", fmt_msg(&m)));
            tw.slots[dst] = Slot::Msg(Box::new(m));
        }
    }
}

fn nth(v: &[Rc<Elem>], raw: u64) -> Option<&Rc<Elem>> {
    if v.is_empty() {
        None
    } else {
        Some(&v[(raw % v.len() as u64) as usize])
    }
}

fn bytes_of(tw: &Tw, i: usize) -> Option<Vec<u8>> {
    match &tw.slots[thandle(tw.tok(i))?] {
        Slot::Bytes(b) => Some(b.clone()),
        _ => None,
    }
}

pub fn run(tw: &mut Tw, op: &str) -> bool {
    match op {
        "actor_bytes" => {
            let dst = tw.dst(1).expect("dst");
            let a = ActorId::from(tspan(tw.tok(2)).expect("bytes"));
            tw.obs(&format!(" OK {} {}", a.to_hex_string(), pb(Some(a.to_bytes()))));
            tw.slots[dst] = Slot::Actor(a);
        }
        "actor_str" => {
            let dst = tw.dst(1).expect("dst");
            let r = String::from_utf8(tspan(tw.tok(2)).expect("str")).ok().and_then(|s| ActorId::from_str(&s).ok());
            match r {
                Some(a) => {
                    tw.obs(&format!(" OK {} {}", a.to_hex_string(), pb(Some(a.to_bytes()))));
                    tw.slots[dst] = Slot::Actor(a);
                }
                None => tw.obs(" ERR"),
            }
        }
        "actor_info" => {
            let a = need!(tw, actor_of(tw, 1));
            tw.obs(&format!(" {} {}", a.to_hex_string(), pb(Some(a.to_bytes()))));
        }
        "actor_cmp" => {
            let a = need!(tw, actor_of(tw, 1));
            let b = need!(tw, actor_of(tw, 2));
            tw.obs(&format!(" {}", a.cmp(&b) as i32));
        }
        "create" => {
            let dst = tw.dst(1).expect("dst");
            let a = need!(tw, actor_of(tw, 2));
            store_doc(tw, dst, Ok(AutoCommit::new().with_actor(a)), None);
        }
        "clone" => {
            let dst = tw.dst(1).expect("dst");
            let d = need!(tw, tw.doc(2));
            let c = tw.docref(d).clone();
            store_doc(tw, dst, Ok(c), None);
        }
        "fork" => {
            let dst = tw.dst(1).expect("dst");
            let d = need!(tw, tw.doc(2));
            let a = need!(tw, actor_of(tw, 3));
            let h = need_heads!(tw, 4);
            let r = match h.get() {
                None => Ok(tw.docmut(d).fork()),
                Some(hs) => tw.docmut(d).fork_at(hs).map_err(|_| ()),
            };
            store_doc(tw, dst, r, Some(a));
        }
        "set_actor" => {
            let d = need!(tw, tw.doc(1));
            let a = need!(tw, actor_of(tw, 2));
            tw.docmut(d).set_actor(a);
            tw.obs(" OK");
        }
        "get_actor" => {
            let d = need!(tw, tw.doc(1));
            let a = tw.docref(d).get_actor().clone();
            tw.obs(&format!(" OK n=1 {}", fmt_item(&Idx::None, None, TV::Actor(&a), None, true)));
        }
        "free" => {
            let h = thandle(tw.tok(1)).expect("handle");
            if matches!(tw.slots[h], Slot::Empty) {
                tw.skip();
            } else {
                tw.slots[h] = Slot::Empty;
                tw.obs(" OK");
            }
        }
        "heads" => {
            let dst = tw.dst(1).expect("dst");
            let d = need!(tw, tw.doc(2));
            let hs = tw.docmut(d).get_heads();
            store_list(tw, dst, LKind::Hashes, elems(hs, Elem::Hash));
        }
        "changes" => {
            let dst = tw.dst(1).expect("dst");
            let d = need!(tw, tw.doc(2));
            let h = need_heads!(tw, 3);
            let cs = tw.docmut(d).get_changes(h.get().unwrap_or(&[]));
            store_list(tw, dst, LKind::Changes, elems(cs, Elem::Change));
        }
        "changes_added" => {
            let dst = tw.dst(1).expect("dst");
            let a = need!(tw, tw.doc(2));
            let b = need!(tw, tw.doc(3));
            if a == b {
                tw.skip();
                return true;
            }
            let cs = tw.with2(a, b, |x, y| x.get_changes_added(y));
            store_list(tw, dst, LKind::Changes, elems(cs, Elem::Change));
        }
        "change_by_hash" => {
            let dst = tw.dst(1).expect("dst");
            let d = need!(tw, tw.doc(2));
            let h = match tw.list(3) {
                Some((LKind::Hashes, v)) => match nth(v, tu64(tw.tok(4))).map(|e| (**e).clone()) {
                    Some(Elem::Hash(h)) => h,
                    _ => {
                        tw.skip();
                        return true;
                    }
                },
                _ => {
                    tw.skip();
                    return true;
                }
            };
            // automerge-c's call resolves to ReadDoc::get_change_by_hash(&self): pending ops are not committed
            let c = ReadDoc::get_change_by_hash(tw.docref(d), &h);
            store_list(tw, dst, LKind::Changes, vec![Rc::new(c.map(Elem::Change).unwrap_or(Elem::Void))]);
        }
        "last_local" => {
            let dst = tw.dst(1).expect("dst");
            let d = need!(tw, tw.doc(2));
            let c = tw.docmut(d).get_last_local_change();
            store_list(tw, dst, LKind::Changes, vec![Rc::new(c.map(Elem::Change).unwrap_or(Elem::Void))]);
        }
        "missing_deps" => {
            let d = need!(tw, tw.doc(1));
            let h = need_heads!(tw, 2);
            // likewise ReadDoc::get_missing_deps(&self)
            let hs = ReadDoc::get_missing_deps(tw.docref(d), h.get().unwrap_or(&[]));
            let mut s = format!(" OK n={}", hs.len());
            for h in &hs {
                s.push(' ');
                s.push_str(&fmt_elem(&Elem::Hash(*h)));
            }
            tw.obs(&s);
        }
        "apply" => {
            let d = need!(tw, tw.doc(1));
            let cs: Result<Vec<Change>, ()> = match tw.list(2) {
                Some((LKind::Changes, v)) => {
                    if v.is_empty() && !tw.o.empty_items {
                        tw.skip();
                        return true;
                    }
                    v.iter()
                        .map(|e| match &**e {
                            Elem::Change(c) => Ok(c.clone()),
                            _ => Err(()),
                        })
                        .collect()
                }
                _ => {
                    tw.skip();
                    return true;
                }
            };
            let r = cs.and_then(|cs| tw.docmut(d).apply_changes(cs).map_err(|_| ()));
            tw.status(r);
        }
        "change_info" => {
            let (_, v) = match tw.list(1) {
                Some((LKind::Changes, v)) => (0, v),
                _ => {
                    tw.skip();
                    return true;
                }
            };
            let mut s = format!(" n={}", v.len());
            for i in order(v.len(), tw.tok(2)) {
                let rc = Rc::strong_count(&v[i]);
                s.push_str(" {");
                match &*v[i] {
                    Elem::Void => s.push_str("void"),
                    _ if rc > 1 => s.push_str(&format!("shared rc={}", rc)),
                    Elem::Change(c) => s.push_str(&fmt_change(c)),
                    _ => s.push_str("NOT-A-CHANGE"),
                }
                s.push('}');
            }
            tw.obs(&s);
        }
        "change_compress" => {
            let h = need!(tw, thandle(tw.tok(1)));
            let mut s = String::new();
            match &mut tw.slots[h] {
                Slot::List(LKind::Changes, v) => {
                    for e in v.iter_mut() {
                        match Rc::get_mut(e) {
                            Some(Elem::Change(c)) => {
                                let _ = c.bytes();
                                s.push(' ');
                                s.push_str(&pb(Some(c.raw_bytes())));
                            }
                            _ => s.push_str(" -"),
                        }
                    }
                }
                _ => {
                    tw.skip();
                    return true;
                }
            }
            tw.obs(&s);
        }
        "change_rt" => {
            let dst = tw.dst(1).expect("dst");
            let raw = match tw.list(2) {
                Some((LKind::Changes, v)) => match nth(v, tu64(tw.tok(3))) {
                    Some(e) if Rc::strong_count(e) == 1 => match &**e {
                        Elem::Change(c) => Some(c.raw_bytes().to_vec()),
                        _ => None,
                    },
                    _ => None,
                },
                _ => None,
            };
            let raw = need!(tw, raw);
            match Change::from_bytes(raw) {
                Ok(c) => store_list(tw, dst, LKind::Changes, vec![Rc::new(Elem::Change(c))]),
                Err(_) => tw.obs(" ERR"),
            }
        }
        "load_changes" => {
            let dst = tw.dst(1).expect("dst");
            let b = need!(tw, bytes_of(tw, 2));
            match am::Automerge::load(&b) {
                Ok(d) => store_list(tw, dst, LKind::Changes, elems(d.get_changes(&[]), Elem::Change)),
                Err(_) => tw.obs(" ERR"),
            }
        }
        "merge" => {
            let a = need!(tw, tw.doc(1));
            let b = need!(tw, tw.doc(2));
            if a == b {
                tw.skip();
                return true;
            }
            match tw.with2(a, b, |x, y| x.merge(y)) {
                Ok(hs) => {
                    let mut s = format!(" OK n={}", hs.len());
                    for h in &hs {
                        s.push(' ');
                        s.push_str(&fmt_elem(&Elem::Hash(*h)));
                    }
                    tw.obs(&s);
                }
                Err(_) => tw.obs(" ERR"),
            }
        }
        "equal" => {
            let a = need!(tw, tw.doc(1));
            let b = need!(tw, tw.doc(2));
            if a == b {
                tw.skip();
                return true;
            }
            let e = tw.with2(a, b, |x, y| x.document().get_heads() == y.document().get_heads());
            tw.obs(&format!(" {}", e as i32));
        }
        "save" | "save_inc" => {
            let dst = tw.dst(1).expect("dst");
            let d = need!(tw, tw.doc(2));
            let b = if op == "save" { tw.docmut(d).save() } else { tw.docmut(d).save_incremental() };
            tw.obs(&format!(" OK {};c=ok", pb(Some(&b))));
            tw.slots[dst] = Slot::Bytes(b);
        }
        "load" => {
            let dst = tw.dst(1).expect("dst");
            let b = need!(tw, bytes_of(tw, 2));
            let a = need!(tw, actor_of(tw, 3));
            store_doc(tw, dst, AutoCommit::load(&b).map_err(|_| ()), Some(a));
        }
        "load_inc" => {
            let d = need!(tw, tw.doc(1));
            let b = need!(tw, bytes_of(tw, 2));
            match tw.docmut(d).load_incremental(&b) {
                Ok(n) => tw.obs(&format!(" OK n=1 [-;-;u{};c=ok]", n)),
                Err(_) => tw.obs(" ERR"),
            }
        }
        "bytes_info" => {
            let b = need!(tw, bytes_of(tw, 1));
            tw.obs(&format!(" {}", pb(Some(&b))));
        }
        "cursor" => {
            let dst = tw.dst(1).expect("dst");
            let d = need!(tw, tw.doc(2));
            let o = need!(tw, tw.obj(3));
            let h = need_heads!(tw, 5);
            let doc = tw.docref(d);
            let len = match h.get() {
                None => doc.length(&o),
                Some(hs) => doc.length_at(&o, hs),
            };
            if len == 0 {
                tw.skip();
                return true;
            }
            let p = (tu64(tw.tok(4)) % len as u64) as usize;
            let r = doc.get_cursor(&o, p, h.get()).map_err(|_| ());
            store_cursor(tw, dst, r);
        }
        "cursor_pos" => {
            let d = need!(tw, tw.doc(1));
            let o = need!(tw, tw.obj(2));
            let c = match thandle(tw.tok(3)).map(|h| &tw.slots[h]) {
                Some(Slot::Cursor(c)) => c.clone(),
                _ => {
                    tw.skip();
                    return true;
                }
            };
            let h = need_heads!(tw, 4);
            match tw.docref(d).get_cursor_position(&o, &c, h.get()) {
                Ok(n) => tw.obs(&format!(" OK n=1 [-;-;u{};c=ok]", n)),
                Err(_) => tw.obs(" ERR"),
            }
        }
        "cursor_info" | "cursor_rt" | "cursor_equal" => return cursor_ops(tw, op),
        _ => return sync_and_items(tw, op),
    }
    true
}

fn cursor_of(tw: &Tw, i: usize) -> Option<Cursor> {
    match &tw.slots[thandle(tw.tok(i))?] {
        Slot::Cursor(c) => Some(c.clone()),
        _ => None,
    }
}

fn cursor_ops(tw: &mut Tw, op: &str) -> bool {
    match op {
        "cursor_info" => {
            let c = need!(tw, cursor_of(tw, 1));
            tw.obs(&format!(" {}", fmt_cursor(&c)));
        }
        "cursor_rt" => {
            let dst = tw.dst(1).expect("dst");
            let c = need!(tw, cursor_of(tw, 2));
            let r = if tw.tok(3) == "bytes" {
                Cursor::try_from(c.to_bytes().as_slice()).map_err(|_| ())
            } else {
                Cursor::try_from(c.to_string().as_str()).map_err(|_| ())
            };
            store_cursor(tw, dst, r);
        }
        "cursor_equal" => {
            let a = need!(tw, cursor_of(tw, 1));
            let b = need!(tw, cursor_of(tw, 2));
            tw.obs(&format!(" {}", (a == b) as i32));
        }
        _ => return false,
    }
    true
}

fn sync_of(tw: &Tw, i: usize) -> Option<usize> {
    let h = thandle(tw.tok(i))?;
    matches!(tw.slots[h], Slot::Sync(_)).then_some(h)
}
fn msg_of(tw: &Tw, i: usize) -> Option<am::sync::Message> {
    match &tw.slots[thandle(tw.tok(i))?] {
        Slot::Msg(m) => Some((**m).clone()),
        _ => None,
    }
}
fn list_of(tw: &Tw, i: usize) -> Option<(LKind, Vec<Rc<Elem>>)> {
    // NB: cloning the Vec<Rc<_>> would bump refcounts; callers drop the clone
    // before observing counts, or use tw.list() directly.
    tw.list(i).map(|(k, v)| (k, v.clone()))
}

fn sync_and_items(tw: &mut Tw, op: &str) -> bool {
    match op {
        "sync_init" => {
            let dst = tw.dst(1).expect("dst");
            tw.obs(" OK;c=ok");
            tw.slots[dst] = Slot::Sync(Box::new(am::sync::State::new()));
        }
        "sync_gen" => {
            let dst = tw.dst(1).expect("dst");
            let d = need!(tw, tw.doc(2));
            let s = need!(tw, sync_of(tw, 3));
            let mut st = std::mem::replace(&mut tw.slots[s], Slot::Empty);
            let m = match &mut st {
                Slot::Sync(state) => tw.docmut(d).sync().generate_sync_message(state),
                _ => unreachable!(),
            };
            tw.slots[s] = st;
            store_msg(tw, dst, Ok(m));
        }
        "sync_recv" => {
            let d = need!(tw, tw.doc(1));
            let s = need!(tw, sync_of(tw, 2));
            let m = need!(tw, msg_of(tw, 3));
            let mut st = std::mem::replace(&mut tw.slots[s], Slot::Empty);
            let r = match &mut st {
                Slot::Sync(state) => tw.docmut(d).sync().receive_sync_message(state, m),
                _ => unreachable!(),
            };
            tw.slots[s] = st;
            tw.status(r);
        }
        "msg_info" => {
            let m = need!(tw, msg_of(tw, 1));
            tw.obs(&fmt_msg(&m));
        }
        "msg_rt" => {
            let dst = tw.dst(1).expect("dst");
            let m = need!(tw, msg_of(tw, 2));
            let b = m.encode();
            tw.obs(&format!(" enc={}", pb(Some(&b))));
            tw.op = "msg_rt2".into();
            store_msg(tw, dst, am::sync::Message::decode(&b).map(Some).map_err(|_| ()));
        }
        "sync_rt" => {
            let dst = tw.dst(1).expect("dst");
            let s = need!(tw, sync_of(tw, 2));
            let b = match &tw.slots[s] {
                Slot::Sync(st) => st.encode(),
                _ => unreachable!(),
            };
            tw.obs(&format!(" enc={}", pb(Some(&b))));
            tw.op = "sync_rt2".into();
            match am::sync::State::decode(&b) {
                Ok(st) => {
                    tw.obs(" OK;c=ok");
                    tw.slots[dst] = Slot::Sync(Box::new(st));
                }
                Err(_) => tw.obs(" ERR"),
            }
        }
        "sync_info" => {
            let s = need!(tw, sync_of(tw, 1));
            let st = match &tw.slots[s] {
                Slot::Sync(st) => st,
                _ => unreachable!(),
            };
            let e: Vec<ChangeHash> = vec![];
            let mut o = String::new();
            o.push_str(&fmt_hashes("shared", &st.shared_heads));
            o.push_str(&fmt_hashes("sent", &st.last_sent_heads));
            o.push_str(&format!(" their_heads:{}", st.their_heads.is_some() as i32));
            o.push_str(&fmt_hashes("", st.their_heads.as_ref().unwrap_or(&e)));
            o.push_str(&format!(" their_needs:{}", st.their_need.is_some() as i32));
            o.push_str(&fmt_hashes("", st.their_need.as_ref().unwrap_or(&e)));
            o.push_str(&format!(" their_haves:{}{{", st.their_have.is_some() as i32));
            o.push_str(&fmt_haves(st.their_have.as_deref().unwrap_or(&[])));
            o.push_str(" }");
            tw.obs(&o);
        }
        "sync_equal" => {
            let a = need!(tw, sync_of(tw, 1));
            let b = need!(tw, sync_of(tw, 2));
            let e = match (&tw.slots[a], &tw.slots[b]) {
                (Slot::Sync(x), Slot::Sync(y)) => x == y,
                _ => unreachable!(),
            };
            tw.obs(&format!(" {}", e as i32));
        }
        "iter" => {
            let (_, v) = need!(tw, tw.list(1));
            let mut s = format!(" n={} st=0", v.len());
            for i in order(v.len(), tw.tok(2)) {
                let rc = Rc::strong_count(&v[i]);
                match &*v[i] {
                    Elem::Change(_) => s.push_str(&format!(" [change;rc={}]", rc)),
                    e => s.push_str(&format!(" {}rc={}", fmt_elem(e), rc)),
                }
            }
            tw.obs(&s);
        }
        "item_result" => {
            let dst = tw.dst(1).expect("dst");
            let (k, e) = match tw.list(2) {
                Some((k, v)) => match nth(v, tu64(tw.tok(3))) {
                    Some(e) => (k, e.clone()),
                    None => {
                        tw.skip();
                        return true;
                    }
                },
                None => {
                    tw.skip();
                    return true;
                }
            };
            tw.obs(&format!(" OK rc={}", Rc::strong_count(&e)));
            tw.slots[dst] = Slot::List(k, vec![e]);
        }
        "cat" => {
            let dst = tw.dst(1).expect("dst");
            let (ka, mut va) = need!(tw, list_of(tw, 2));
            let (kb, vb) = need!(tw, list_of(tw, 3));
            if ka != kb {
                tw.skip();
                return true;
            }
            va.extend(vb);
            tw.obs(&format!(" OK n={}", va.len()));
            tw.slots[dst] = Slot::List(ka, va);
        }
        "items_equal" => {
            let (_, a) = need!(tw, tw.list(1));
            let (_, b) = need!(tw, tw.list(2));
            if (a.is_empty() || b.is_empty()) && !tw.o.empty_items {
                tw.skip();
                return true;
            }
            let e = a.len() == b.len() && a.iter().zip(b.iter()).all(|(x, y)| **x == **y);
            tw.obs(&format!(" {}", e as i32));
        }
        "item_equal" => {
            let (_, a) = need!(tw, tw.list(1));
            let (_, b) = need!(tw, tw.list(3));
            let x = nth(a, tu64(tw.tok(2)));
            let y = nth(b, tu64(tw.tok(4)));
            match (x, y) {
                (Some(x), Some(y)) => {
                    let e = **x == **y;
                    tw.obs(&format!(" {}", e as i32));
                }
                _ => tw.skip(),
            }
        }
        "hash_item" => {
            let dst = tw.dst(1).expect("dst");
            let h = match tw.list(2) {
                Some((LKind::Hashes, v)) => nth(v, tu64(tw.tok(3))).map(|e| (**e).clone()),
                _ => None,
            };
            match h {
                Some(Elem::Hash(h)) => store_list(tw, dst, LKind::Hashes, vec![Rc::new(Elem::Hash(h))]),
                _ => tw.skip(),
            }
        }
        "bad_hash" => {
            let b = tspan(tw.tok(1)).expect("bytes");
            match ChangeHash::try_from(b.as_slice()) {
                Ok(h) => tw.obs(&format!(" OK n=1 {}", fmt_elem(&Elem::Hash(h)))),
                Err(_) => tw.obs(" ERR"),
            }
        }
        "str_cmp" => {
            let a = tspan(tw.tok(1)).unwrap_or_default();
            let b = tspan(tw.tok(2)).unwrap_or_default();
            let r = match (std::str::from_utf8(&a), std::str::from_utf8(&b)) {
                (Ok(x), Ok(y)) => x.cmp(y) as i32,
                (Err(_), Ok(_)) => -1,
                (Err(_), Err(_)) => 0,
                (Ok(_), Err(_)) => 1,
            };
            tw.obs(&format!(" {}", r));
        }
        "misc" => {
            let _ = tspan(tw.tok(1));
            tw.obs(" 16 32 -1 0 0 1");
        }
        "end" => {
            let rev = tw.tok(1) == "rev";
            let mut n = 0;
            for i in 0..tw.slots.len() {
                let h = if rev { tw.slots.len() - 1 - i } else { i };
                if !matches!(tw.slots[h], Slot::Empty) {
                    tw.slots[h] = Slot::Empty;
                    n += 1;
                }
            }
            tw.obs(&format!(" freed={}", n));
        }
        _ => return false,
    }
    true
}
