//! Shared helpers of the C36 twin: tokens, slots, printing.  The formats here
//! mirror cdriver_a.h byte for byte.
use automerge as am;
use am::{ActorId, AutoCommit, Change, ChangeHash, Cursor, ObjId, ObjType, ReadDoc, ScalarValue};
use std::rc::Rc;

#[derive(Clone, Debug, PartialEq)]
pub enum Elem {
    Void,
    Hash(ChangeHash),
    Change(Change),
    Scalar(ScalarValue),
}

#[derive(Clone, Copy, PartialEq, Eq, Debug)]
pub enum LKind {
    Hashes,
    Changes,
    Items,
}

pub enum Slot {
    Empty,
    Actor(ActorId),
    Doc(Box<AutoCommit>),
    Obj { id: ObjId, actor_queried: bool },
    List(LKind, Vec<Rc<Elem>>),
    Bytes(Vec<u8>),
    Cursor(Cursor),
    Sync(Box<am::sync::State>),
    Msg(Box<am::sync::Message>),
}

#[derive(Default)]
pub struct Opts {
    pub empty_items: bool,
    pub cursor_twice: bool,
    pub unaligned_items: bool,
    pub objid_cache_eq: bool,
}

pub fn fnv(b: &[u8]) -> u64 {
    let mut h: u64 = 0xcbf29ce484222325;
    for x in b {
        h ^= *x as u64;
        h = h.wrapping_mul(0x100000001b3);
    }
    h
}

pub fn hexs(b: &[u8]) -> String {
    let mut s = String::with_capacity(b.len() * 2);
    for x in b {
        s.push_str(&format!("{:02x}", x));
    }
    s
}

/// B(span)
pub fn pb(b: Option<&[u8]>) -> String {
    match b {
        None => "-".into(),
        Some(b) if b.len() <= 40 => format!("x{}", hexs(b)),
        Some(b) => format!("#{}:{:016x}", b.len(), fnv(b)),
    }
}

pub fn unhex(t: &str) -> Vec<u8> {
    assert!(t.len() % 2 == 0, "odd hex");
    (0..t.len() / 2)
        .map(|i| u8::from_str_radix(&t[2 * i..2 * i + 2], 16).expect("bad hex"))
        .collect()
}

/// "=hex" -> Some(bytes), "-" -> None
pub fn tspan(t: &str) -> Option<Vec<u8>> {
    if t == "-" {
        return None;
    }
    assert!(t.starts_with('='), "bad span token {t}");
    Some(unhex(&t[1..]))
}

pub fn thandle(t: &str) -> Option<usize> {
    if t == "-" {
        None
    } else {
        Some(t.parse().expect("bad handle"))
    }
}

pub fn tu64(t: &str) -> u64 {
    // strtoull semantics for the generator's plain decimal tokens
    t.parse().expect("bad u64")
}
pub fn ti64(t: &str) -> i64 {
    t.parse().expect("bad i64")
}

pub fn tval(t: &str) -> Result<ScalarValue, ()> {
    let (ty, p) = t.split_once(':').expect("bad value token");
    Ok(match ty {
        "bool" => ScalarValue::Boolean(p.parse::<i64>().unwrap() != 0),
        "bytes" => ScalarValue::Bytes(tspan(p).unwrap()),
        "counter" => ScalarValue::counter(ti64(p)),
        "f64" => ScalarValue::F64(f64::from_bits(u64::from_str_radix(p, 16).unwrap())),
        "int" => ScalarValue::Int(ti64(p)),
        "null" => ScalarValue::Null,
        // the C API refuses invalid UTF-8 with an error result
        "str" => ScalarValue::Str(String::from_utf8(tspan(p).unwrap()).map_err(|_| ())?.into()),
        "ts" => ScalarValue::Timestamp(ti64(p)),
        "uint" => ScalarValue::Uint(tu64(p)),
        _ => panic!("unknown value type {ty}"),
    })
}

pub fn tobjtype(t: &str) -> ObjType {
    match t {
        "map" => ObjType::Map,
        "list" => ObjType::List,
        "text" => ObjType::Text,
        _ => panic!("bad obj type"),
    }
}

pub fn objtype_num(t: Result<ObjType, am::AutomergeError>) -> i32 {
    match t {
        Ok(ObjType::List) => 1,
        Ok(ObjType::Map) | Ok(ObjType::Table) => 2,
        Ok(ObjType::Text) => 3,
        Err(_) => 0,
    }
}

pub fn fmt_objid(o: Option<&ObjId>, with_actor: bool) -> String {
    match o {
        None => "-".into(),
        Some(ObjId::Root) => "o0".into(),
        Some(ObjId::Id(c, a, i)) => {
            if with_actor {
                format!("o{}@{}:{}", c, a.to_hex_string(), i)
            } else {
                format!("o{}@_:{}", c, i)
            }
        }
    }
}

pub enum Idx {
    None,
    Key(String),
    Pos(usize),
}

/// The value part of an item
pub enum TV<'a> {
    Void,
    Value(&'a am::Value<'a>),
    Scalar(&'a ScalarValue),
    Hash(&'a ChangeHash),
    Actor(&'a ActorId),
    Change,
}

pub fn fmt_scalar(s: &ScalarValue) -> String {
    match s {
        ScalarValue::Boolean(b) => format!("b{}", *b as i32),
        ScalarValue::Bytes(b) => format!("y{}", pb(Some(b))),
        ScalarValue::Counter(c) => format!("c{}", i64::from(c)),
        ScalarValue::F64(f) => format!("f{:016x}", f.to_bits()),
        ScalarValue::Int(i) => format!("i{}", i),
        ScalarValue::Null => "null".into(),
        ScalarValue::Str(s) => format!("s{}", pb(Some(s.as_bytes()))),
        ScalarValue::Timestamp(t) => format!("t{}", t),
        ScalarValue::Uint(u) => format!("u{}", u),
        ScalarValue::Unknown { type_code, bytes } => format!("?{}:{}", type_code, pb(Some(bytes))),
    }
}

pub fn fmt_item(idx: &Idx, obj: Option<&ObjId>, val: TV, doc: Option<&AutoCommit>, with_actor: bool) -> String {
    let i = match idx {
        Idx::None => "-".to_string(),
        Idx::Key(k) => format!("k{}", pb(Some(k.as_bytes()))),
        Idx::Pos(p) => format!("p{}", p),
    };
    let v = match val {
        TV::Void => "void".to_string(),
        TV::Scalar(s) => fmt_scalar(s),
        TV::Value(am::Value::Scalar(s)) => fmt_scalar(s),
        TV::Value(am::Value::Object(_)) => match (doc, obj) {
            (Some(d), Some(o)) => format!("obj{}", objtype_num(d.object_type(o))),
            (Some(d), None) => format!("obj{}", objtype_num(d.object_type(am::ROOT))),
            _ => "obj".to_string(),
        },
        TV::Hash(h) => format!("h{}", pb(Some(&h.0))),
        TV::Actor(a) => format!("a{}", a.to_hex_string()),
        TV::Change => "change".to_string(),
    };
    format!("[{};{};{};c=ok]", i, fmt_objid(obj, with_actor), v)
}

pub fn fmt_elem(e: &Elem) -> String {
    match e {
        Elem::Void => fmt_item(&Idx::None, None, TV::Void, None, true),
        Elem::Hash(h) => fmt_item(&Idx::None, None, TV::Hash(h), None, true),
        Elem::Change(_) => fmt_item(&Idx::None, None, TV::Change, None, true),
        Elem::Scalar(s) => fmt_item(&Idx::None, None, TV::Scalar(s), None, true),
    }
}

/// Index sequence visited by cdriver's iterate() for a result of n items.
pub fn order(n: usize, mode: &str) -> Vec<usize> {
    match mode.as_bytes().first() {
        Some(b'R') | Some(b'B') => (0..n).rev().collect(),
        Some(b'S') => {
            let k: usize = mode[1..].parse().unwrap_or(1).max(1);
            (0..n).step_by(k).collect()
        }
        Some(b'W') => (0..n.min(2)).chain(0..n).collect(),
        _ => (0..n).collect(),
    }
}

pub fn fmt_hashes(label: &str, hs: &[ChangeHash]) -> String {
    let mut s = format!(" {}=[", label);
    for h in hs {
        s.push(' ');
        s.push_str(&pb(Some(&h.0)));
    }
    s.push_str(" ]");
    s
}
