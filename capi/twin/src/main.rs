//! C36 twin: executes a script with automerge's Rust API (AutoCommit) and
//! prints the observation lines that cdriver.c prints for the same script.
//! usage: c36twin <script>
mod ops_doc;
mod ops_misc;
mod util;

use automerge as am;
use am::{AutoCommit, ChangeHash, ObjId, ReadDoc};
use std::io::Write;
use util::*;

pub struct Tw {
    pub slots: Vec<Slot>,
    pub o: Opts,
    pub line: usize,
    pub op: String,
    pub t: Vec<String>,
    pub out: std::io::BufWriter<std::io::Stdout>,
}

pub enum HeadsArg {
    Current,
    At(Vec<ChangeHash>),
}
impl HeadsArg {
    pub fn get(&self) -> Option<&[ChangeHash]> {
        match self {
            HeadsArg::Current => None,
            HeadsArg::At(v) => Some(v),
        }
    }
}

impl Tw {
    pub fn tok(&self, i: usize) -> &str {
        self.t.get(i).unwrap_or_else(|| panic!("line {}: missing token {}", self.line, i))
    }
    pub fn obs(&mut self, s: &str) {
        writeln!(self.out, "{} {}{}", self.line, self.op, s).unwrap();
    }
    pub fn skip(&mut self) {
        self.obs(" skip");
    }
    pub fn status<T, E>(&mut self, r: Result<T, E>) {
        let s = if r.is_ok() { " OK" } else { " ERR" };
        self.obs(s);
    }
    pub fn dst(&self, i: usize) -> Option<usize> {
        let h = thandle(self.tok(i));
        if let Some(h) = h {
            assert!(matches!(self.slots[h], Slot::Empty), "line {}: dst slot occupied", self.line);
        }
        h
    }
    pub fn doc(&self, i: usize) -> Option<usize> {
        let h = thandle(self.tok(i))?;
        matches!(self.slots[h], Slot::Doc(_)).then_some(h)
    }
    pub fn docref(&self, h: usize) -> &AutoCommit {
        match &self.slots[h] {
            Slot::Doc(d) => d,
            _ => unreachable!(),
        }
    }
    pub fn docmut(&mut self, h: usize) -> &mut AutoCommit {
        match &mut self.slots[h] {
            Slot::Doc(d) => d,
            _ => unreachable!(),
        }
    }
    /// "R" => root, K_OBJ handle => its id
    pub fn obj(&self, i: usize) -> Option<ObjId> {
        let t = self.tok(i);
        if t == "R" {
            return Some(am::ROOT);
        }
        match &self.slots[thandle(t)?] {
            Slot::Obj { id, .. } => Some(id.clone()),
            _ => None,
        }
    }
    /// Err(()) => the op is skipped
    pub fn heads(&self, i: usize) -> Result<HeadsArg, ()> {
        let t = self.tok(i);
        if t == "-" {
            return Ok(HeadsArg::Current);
        }
        match &self.slots[thandle(t).ok_or(())?] {
            Slot::List(LKind::Hashes, v) => {
                if v.is_empty() && !self.o.empty_items {
                    return Err(());
                }
                Ok(HeadsArg::At(
                    v.iter()
                        .map(|e| match &**e {
                            Elem::Hash(h) => *h,
                            _ => panic!("non-hash in HASHES"),
                        })
                        .collect(),
                ))
            }
            _ => Err(()),
        }
    }
    /// position resolution (mirrors respos() + automerge-c's adjust!)
    pub fn respos(&self, d: usize, o: &ObjId, t: &str, ins: &mut bool) -> usize {
        let len = self.docref(d).length(o);
        if len == 0 {
            *ins = true;
            return 0;
        }
        if t == "MAX" {
            return if *ins { len } else { len - 1 };
        }
        let r = tu64(t) as usize;
        if *ins {
            r % (len + 1)
        } else {
            r % len
        }
    }
    pub fn list(&self, i: usize) -> Option<(LKind, &Vec<std::rc::Rc<Elem>>)> {
        match &self.slots[thandle(self.tok(i))?] {
            Slot::List(k, v) => Some((*k, v)),
            _ => None,
        }
    }
    /// take two distinct docs out of their slots for a binary operation
    pub fn with2<R>(&mut self, a: usize, b: usize, f: impl FnOnce(&mut AutoCommit, &mut AutoCommit) -> R) -> R {
        let mut sa = std::mem::replace(&mut self.slots[a], Slot::Empty);
        let mut sb = std::mem::replace(&mut self.slots[b], Slot::Empty);
        let r = match (&mut sa, &mut sb) {
            (Slot::Doc(da), Slot::Doc(db)) => f(da, db),
            _ => unreachable!(),
        };
        self.slots[a] = sa;
        self.slots[b] = sb;
        r
    }
}

fn main() {
    let path = std::env::args().nth(1).expect("usage: c36twin <script>");
    let text = std::fs::read_to_string(&path).expect("read script");
    let mut tw = Tw {
        slots: (0..512).map(|_| Slot::Empty).collect(),
        o: Opts::default(),
        line: 0,
        op: String::new(),
        t: vec![],
        out: std::io::BufWriter::new(std::io::stdout()),
    };
    for (n, l) in text.lines().enumerate() {
        tw.line = n + 1;
        tw.t = l.split_whitespace().map(|s| s.to_string()).collect();
        if tw.t.is_empty() || tw.t[0].starts_with('#') {
            continue;
        }
        tw.op = tw.t[0].clone();
        if tw.op == "opt" {
            let v = tw.tok(2) != "0";
            match tw.tok(1) {
                "empty_items" => tw.o.empty_items = v,
                "cursor_twice" => tw.o.cursor_twice = v,
                "unaligned_items" => tw.o.unaligned_items = v,
                "objid_cache_eq" => tw.o.objid_cache_eq = v,
                x => panic!("unknown opt {x}"),
            }
            continue;
        }
        let op = tw.op.clone();
        if !ops_doc::run(&mut tw, &op) && !ops_misc::run(&mut tw, &op) {
            panic!("line {}: unknown op {}", tw.line, op);
        }
    }
    tw.out.flush().unwrap();
}
