//! Twin of cdriver_b.h: document mutation and read ops.
use crate::util::*;
use crate::{HeadsArg, Tw};
use automerge as am;
use am::marks::{ExpandMark, Mark};
use am::transaction::{CommitOptions, Transactable};
use am::{AutomergeError, ObjId, ReadDoc, ScalarValue};
use std::ops::Bound;
use std::rc::Rc;

macro_rules! need {
    ($tw:expr, $e:expr) => {
        match $e {
            Some(x) => x,
            None => {
                $tw.skip();
                return true;
            }
        }
    };
}
macro_rules! need_heads {
    ($tw:expr, $i:expr) => {
        match $tw.heads($i) {
            Ok(h) => h,
            Err(()) => {
                $tw.skip();
                return true;
            }
        }
    };
}
pub(crate) use need;
pub(crate) use need_heads;

fn tstr(t: &str) -> Result<Option<String>, ()> {
    match tspan(t) {
        None => Ok(None),
        Some(b) => String::from_utf8(b).map(Some).map_err(|_| ()),
    }
}
fn texpand(t: &str) -> ExpandMark {
    match t {
        "none" => ExpandMark::None,
        "before" => ExpandMark::Before,
        "after" => ExpandMark::After,
        "both" => ExpandMark::Both,
        _ => panic!("bad expand"),
    }
}

/// result of an op yielding one (value, id) item; optional store of an object id
fn finish_obj(
    tw: &mut Tw,
    r: Result<Option<(am::Value<'static>, ObjId)>, AutomergeError>,
    idx: Idx,
    dst: Option<usize>,
    d: usize,
) {
    match r {
        Err(_) => tw.obs(" ERR"),
        Ok(None) => {
            let s = fmt_item(&Idx::None, None, TV::Void, None, true);
            tw.obs(&format!(" OK {}", s));
        }
        Ok(Some((v, id))) => {
            let s = fmt_item(&idx, Some(&id), TV::Value(&v), Some(tw.docref(d)), dst.is_none());
            tw.obs(&format!(" OK {}", s));
            if let (Some(h), am::Value::Object(_)) = (dst, &v) {
                tw.slots[h] = Slot::Obj { id, actor_queried: false };
            }
        }
    }
}

fn finish_values(tw: &mut Tw, items: Result<Vec<String>, ()>, mode: &str) {
    match items {
        Err(()) => tw.obs(" ERR"),
        Ok(v) => {
            let mut s = format!(" OK n={}", v.len());
            for i in order(v.len(), mode) {
                s.push(' ');
                s.push_str(&v[i]);
            }
            tw.obs(&s);
        }
    }
}

fn clip_splice(len: usize, tp: &str, td: &str) -> (usize, isize) {
    let p = if tp == "MAX" { len } else { (tu64(tp) % (len as u64 + 1)) as usize };
    let dd = ti64(td);
    let del = if dd >= 0 {
        (dd as u64 % (len - p + 1) as u64) as isize
    } else {
        -(((-dd) as u64 % (p as u64 + 1)) as isize)
    };
    (p, del)
}

fn mark_range(tw: &Tw, d: usize, o: &ObjId, t1: &str, t2: &str) -> Option<(usize, usize)> {
    let len = tw.docref(d).length(o);
    if len == 0 {
        return None;
    }
    let st = (tu64(t1) % len as u64) as usize;
    let en = st + 1 + (tu64(t2) % (len - st) as u64) as usize;
    Some((st, en))
}

pub fn run(tw: &mut Tw, op: &str) -> bool {
    match op {
        "map_put" => {
            let d = need!(tw, tw.doc(1));
            let o = need!(tw, tw.obj(2));
            let (k, v) = (tstr(tw.tok(3)), tval(tw.tok(4)));
            let r = match (k, v) {
                (Ok(Some(k)), Ok(v)) => tw.docmut(d).put(&o, k, v).map_err(|_| ()),
                _ => Err(()),
            };
            tw.status(r);
        }
        "map_put_obj" => {
            let dst = tw.dst(1);
            let d = need!(tw, tw.doc(2));
            let o = need!(tw, tw.obj(3));
            let ty = tobjtype(tw.tok(5));
            match tstr(tw.tok(4)) {
                Ok(Some(k)) => {
                    let r = tw.docmut(d).put_object(&o, k.as_str(), ty);
                    let r = r.map(|id| Some((am::Value::Object(ty), id)));
                    finish_obj(tw, r, Idx::Key(k), dst, d);
                }
                _ => tw.obs(" ERR"),
            }
        }
        "list_put" => {
            let d = need!(tw, tw.doc(1));
            let o = need!(tw, tw.obj(2));
            let mut ins = tw.tok(4) != "0";
            let p = tw.respos(d, &o, &tw.tok(3).to_string(), &mut ins);
            let r = match tval(tw.tok(5)) {
                Ok(v) if ins => tw.docmut(d).insert(&o, p, v).map_err(|_| ()),
                Ok(v) => tw.docmut(d).put(&o, p, v).map_err(|_| ()),
                Err(()) => Err(()),
            };
            tw.status(r);
        }
        "list_put_obj" => {
            let dst = tw.dst(1);
            let d = need!(tw, tw.doc(2));
            let o = need!(tw, tw.obj(3));
            let mut ins = tw.tok(5) != "0";
            let p = tw.respos(d, &o, &tw.tok(4).to_string(), &mut ins);
            let ty = tobjtype(tw.tok(6));
            let r = if ins { tw.docmut(d).insert_object(&o, p, ty) } else { tw.docmut(d).put_object(&o, p, ty) };
            let r = r.map(|id| Some((am::Value::Object(ty), id)));
            finish_obj(tw, r, Idx::Pos(p), dst, d);
        }
        "map_inc" => {
            let d = need!(tw, tw.doc(1));
            let o = need!(tw, tw.obj(2));
            let n = ti64(tw.tok(4));
            let r = match tstr(tw.tok(3)) {
                Ok(Some(k)) => tw.docmut(d).increment(&o, k, n).map_err(|_| ()),
                _ => Err(()),
            };
            tw.status(r);
        }
        "list_inc" => {
            let d = need!(tw, tw.doc(1));
            let o = need!(tw, tw.obj(2));
            let mut ins = false;
            let p = tw.respos(d, &o, &tw.tok(3).to_string(), &mut ins);
            let n = ti64(tw.tok(4));
            let r = tw.docmut(d).increment(&o, p, n);
            tw.status(r);
        }
        "map_del" => {
            let d = need!(tw, tw.doc(1));
            let o = need!(tw, tw.obj(2));
            let r = match tstr(tw.tok(3)) {
                Ok(Some(k)) => tw.docmut(d).delete(&o, k).map_err(|_| ()),
                _ => Err(()),
            };
            tw.status(r);
        }
        "list_del" => {
            let d = need!(tw, tw.doc(1));
            let o = need!(tw, tw.obj(2));
            let mut ins = false;
            let p = tw.respos(d, &o, &tw.tok(3).to_string(), &mut ins);
            let r = tw.docmut(d).delete(&o, p);
            tw.status(r);
        }
        "mkitems" => {
            let dst = tw.dst(1).expect("dst");
            let vals: Result<Vec<ScalarValue>, ()> = tw.t[2..].iter().map(|t| tval(t)).collect();
            match vals {
                Ok(v) => {
                    tw.obs(&format!(" OK n={}", v.len()));
                    tw.slots[dst] = Slot::List(LKind::Items, v.into_iter().map(|s| Rc::new(Elem::Scalar(s))).collect());
                }
                Err(()) => tw.obs(" ERR"),
            }
        }
        "splice" => {
            let d = need!(tw, tw.doc(1));
            let o = need!(tw, tw.obj(2));
            let tv = tw.tok(5).to_string();
            let vals: Vec<ScalarValue> = if tv.starts_with('Z') {
                if !tw.o.empty_items {
                    tw.skip();
                    return true;
                }
                vec![]
            } else {
                match thandle(&tv).map(|h| &tw.slots[h]) {
                    Some(Slot::List(LKind::Items, v)) => v
                        .iter()
                        .map(|e| match &**e {
                            Elem::Scalar(s) => s.clone(),
                            _ => panic!("non-scalar in ITEMS"),
                        })
                        .collect(),
                    _ => {
                        tw.skip();
                        return true;
                    }
                }
            };
            let len = tw.docref(d).length(&o);
            let (p, del) = clip_splice(len, tw.tok(3), tw.tok(4));
            let r = tw.docmut(d).splice(&o, p, del, vals);
            tw.status(r);
        }
        "splice_text" => {
            let d = need!(tw, tw.doc(1));
            let o = need!(tw, tw.obj(2));
            let len = tw.docref(d).length(&o);
            let (p, del) = clip_splice(len, tw.tok(3), tw.tok(4));
            let r = match tstr(tw.tok(5)) {
                Ok(Some(s)) => tw.docmut(d).splice_text(&o, p, del, &s).map_err(|_| ()),
                _ => Err(()),
            };
            tw.status(r);
        }
        "mark" => {
            let d = need!(tw, tw.doc(1));
            let o = need!(tw, tw.obj(2));
            let (st, en) = need!(tw, mark_range(tw, d, &o, tw.tok(3), tw.tok(4)));
            let ex = texpand(tw.tok(5));
            let r = match (tstr(tw.tok(6)), tval(tw.tok(7))) {
                (Ok(Some(name)), Ok(v)) => tw.docmut(d).mark(&o, Mark::new(name, v, st, en), ex).map_err(|_| ()),
                _ => Err(()),
            };
            tw.status(r);
        }
        "unmark" => {
            let d = need!(tw, tw.doc(1));
            let o = need!(tw, tw.obj(2));
            let (st, en) = need!(tw, mark_range(tw, d, &o, tw.tok(3), tw.tok(4)));
            let ex = texpand(tw.tok(5));
            let r = match tstr(tw.tok(6)) {
                Ok(Some(name)) => tw.docmut(d).unmark(&o, &name, st, en, ex).map_err(|_| ()),
                _ => Err(()),
            };
            tw.status(r);
        }
        "marks" => {
            let d = need!(tw, tw.doc(1));
            let o = need!(tw, tw.obj(2));
            let h = need_heads!(tw, 3);
            let r = match h.get() {
                None => tw.docref(d).marks(&o),
                Some(hs) => tw.docref(d).marks_at(&o, hs),
            };
            match r {
                Err(_) => tw.obs(" ERR"),
                Ok(ms) => {
                    let mut s = format!(" OK n={}", ms.len());
                    for m in &ms {
                        s.push_str(&format!(
                            " {{{} {}..{} {};c=ok}}",
                            pb(Some(m.name().as_bytes())),
                            m.start,
                            m.end,
                            fmt_item(&Idx::None, None, TV::Scalar(m.value()), None, true)
                        ));
                    }
                    tw.obs(&s);
                }
            }
        }
        "commit" | "empty_change" => {
            let d = need!(tw, tw.doc(1));
            let msg = tstr(tw.tok(2));
            let time = if tw.tok(3) == "-" { None } else { Some(ti64(tw.tok(3))) };
            let msg = match msg {
                Ok(m) => m,
                Err(()) => {
                    tw.obs(" ERR");
                    return true;
                }
            };
            let mut opts = CommitOptions::default();
            if let Some(m) = msg {
                opts.set_message(m);
            }
            if let Some(t) = time {
                opts.set_time(t);
            }
            let h = if op == "commit" { tw.docmut(d).commit_with(opts) } else { Some(tw.docmut(d).empty_change(opts)) };
            let item = match &h {
                Some(h) => fmt_item(&Idx::None, None, TV::Hash(h), None, true),
                None => fmt_item(&Idx::None, None, TV::Void, None, true),
            };
            tw.obs(&format!(" OK n=1 {}", item));
        }
        "rollback" => {
            let d = need!(tw, tw.doc(1));
            let n = tw.docmut(d).rollback();
            tw.obs(&format!(" {}", n));
        }
        "pending" => {
            let d = need!(tw, tw.doc(1));
            let n = tw.docref(d).pending_ops();
            tw.obs(&format!(" {}", n));
        }
        "map_get" => {
            let dst = tw.dst(1);
            let d = need!(tw, tw.doc(2));
            let o = need!(tw, tw.obj(3));
            let h = need_heads!(tw, 5);
            match tstr(tw.tok(4)) {
                Ok(Some(k)) => {
                    let r = match h.get() {
                        None => tw.docref(d).get(&o, k.as_str()),
                        Some(hs) => tw.docref(d).get_at(&o, k.as_str(), hs),
                    };
                    let r = r.map(|x| x.map(|(v, id)| (v.into_owned(), id)));
                    finish_obj(tw, r, Idx::Key(k), dst, d);
                }
                _ => tw.obs(" ERR"),
            }
        }
        "list_get" => {
            let dst = tw.dst(1);
            let d = need!(tw, tw.doc(2));
            let o = need!(tw, tw.obj(3));
            let h = need_heads!(tw, 5);
            let mut ins = false;
            let p = tw.respos(d, &o, &tw.tok(4).to_string(), &mut ins);
            let r = match h.get() {
                None => tw.docref(d).get(&o, p),
                Some(hs) => tw.docref(d).get_at(&o, p, hs),
            };
            let r = r.map(|x| x.map(|(v, id)| (v.into_owned(), id)));
            finish_obj(tw, r, Idx::Pos(p), dst, d);
        }
        "map_get_all" | "list_get_all" => {
            let d = need!(tw, tw.doc(1));
            let o = need!(tw, tw.obj(2));
            let h = need_heads!(tw, 4);
            let doc = tw.docref(d);
            let r = if op == "map_get_all" {
                match tstr(tw.tok(3)) {
                    Ok(Some(k)) => match h.get() {
                        None => doc.get_all(&o, k.as_str()).map_err(|_| ()),
                        Some(hs) => doc.get_all_at(&o, k.as_str(), hs).map_err(|_| ()),
                    },
                    _ => Err(()),
                }
            } else {
                let mut ins = false;
                let p = tw.respos(d, &o, tw.tok(3), &mut ins);
                match h.get() {
                    None => doc.get_all(&o, p).map_err(|_| ()),
                    Some(hs) => doc.get_all_at(&o, p, hs).map_err(|_| ()),
                }
            };
            let items = r.map(|v| {
                v.iter().map(|(v, id)| fmt_item(&Idx::None, Some(id), TV::Value(v), Some(doc), true)).collect::<Vec<_>>()
            });
            let mode = tw.tok(5).to_string();
            finish_values(tw, items, &mode);
        }
        "keys" => {
            let d = need!(tw, tw.doc(1));
            let o = need!(tw, tw.obj(2));
            let h = need_heads!(tw, 3);
            let doc = tw.docref(d);
            let ks: Vec<String> = match h.get() {
                None => doc.keys(&o).collect(),
                Some(hs) => doc.keys_at(&o, hs).collect(),
            };
            let items = ks
                .iter()
                .map(|k| fmt_item(&Idx::None, None, TV::Scalar(&ScalarValue::Str(k.as_str().into())), None, true))
                .collect();
            let mode = tw.tok(4).to_string();
            finish_values(tw, Ok(items), &mode);
        }
        "map_range" => {
            let d = need!(tw, tw.doc(1));
            let o = need!(tw, tw.obj(2));
            let h = need_heads!(tw, 5);
            let doc = tw.docref(d);
            let items = match (tstr(tw.tok(3)), tstr(tw.tok(4))) {
                (Ok(b), Ok(e)) => {
                    if matches!((&b, &e), (Some(b), Some(e)) if b > e) {
                        Err(())
                    } else {
                        let bounds = (
                            b.map(Bound::Included).unwrap_or(Bound::Unbounded),
                            e.map(Bound::Excluded).unwrap_or(Bound::Unbounded),
                        );
                        let f = |it: am::iter::MapRangeItem<'_>| {
                            let id = it.id();
                            let v: am::Value<'_> = it.value.into();
                            fmt_item(&Idx::Key(it.key.to_string()), Some(&id), TV::Value(&v), Some(doc), true)
                        };
                        Ok(match h.get() {
                            None => doc.map_range(&o, bounds).map(f).collect(),
                            Some(hs) => doc.map_range_at(&o, bounds, hs).map(f).collect(),
                        })
                    }
                }
                _ => Err(()),
            };
            let mode = tw.tok(6).to_string();
            finish_values(tw, items, &mode);
        }
        "list_range" => {
            let d = need!(tw, tw.doc(1));
            let o = need!(tw, tw.obj(2));
            let h = need_heads!(tw, 5);
            let doc = tw.docref(d);
            let pu = |t: &str| if t == "MAX" { usize::MAX } else { tu64(t) as usize };
            let (b, e) = (pu(tw.tok(3)), pu(tw.tok(4)));
            let items = if b > e {
                Err(())
            } else {
                let f = |it: am::iter::ListRangeItem<'_>| {
                    let id = it.id();
                    let v: am::Value<'_> = it.value.into();
                    fmt_item(&Idx::Pos(it.index), Some(&id), TV::Value(&v), Some(doc), true)
                };
                Ok(match h.get() {
                    None => doc.list_range(&o, b..e).map(f).collect(),
                    Some(hs) => doc.list_range_at(&o, b..e, hs).map(f).collect(),
                })
            };
            let mode = tw.tok(6).to_string();
            finish_values(tw, items, &mode);
        }
        "obj_items" => {
            let d = need!(tw, tw.doc(1));
            let o = need!(tw, tw.obj(2));
            let h = need_heads!(tw, 3);
            let doc = tw.docref(d);
            let f = |(v, id): (am::Value<'_>, ObjId)| fmt_item(&Idx::None, Some(&id), TV::Value(&v), Some(doc), true);
            let items = match h.get() {
                None => doc.values(&o).map(f).collect(),
                Some(hs) => doc.values_at(&o, hs).map(f).collect(),
            };
            let mode = tw.tok(4).to_string();
            finish_values(tw, Ok(items), &mode);
        }
        "text" => {
            let d = need!(tw, tw.doc(1));
            let o = need!(tw, tw.obj(2));
            let h = need_heads!(tw, 3);
            let r = match h.get() {
                None => tw.docref(d).text(&o),
                Some(hs) => tw.docref(d).text_at(&o, hs),
            };
            let items = r
                .map(|s| vec![fmt_item(&Idx::None, None, TV::Scalar(&ScalarValue::Str(s.into())), None, true)])
                .map_err(|_| ());
            finish_values(tw, items, "F");
        }
        "size" => {
            let d = need!(tw, tw.doc(1));
            let o = need!(tw, tw.obj(2));
            let h = need_heads!(tw, 3);
            let n = match h {
                HeadsArg::Current => tw.docref(d).length(&o),
                HeadsArg::At(hs) => tw.docref(d).length_at(&o, &hs),
            };
            tw.obs(&format!(" {}", n));
        }
        "obj_type" => {
            let d = need!(tw, tw.doc(1));
            let o = need!(tw, tw.obj(2));
            let n = objtype_num(tw.docref(d).object_type(&o));
            tw.obs(&format!(" {}", n));
        }
        "obj_info" => {
            let h = need!(tw, thandle(tw.tok(1)));
            let s = match &mut tw.slots[h] {
                Slot::Obj { id, actor_queried } => {
                    *actor_queried = true;
                    fmt_objid(Some(id), true)
                }
                _ => {
                    tw.skip();
                    return true;
                }
            };
            tw.obs(&format!(" {}", s));
        }
        "obj_equal" => {
            let a = need!(tw, thandle(tw.tok(1)));
            let b = need!(tw, thandle(tw.tok(2)));
            let r = match (&tw.slots[a], &tw.slots[b]) {
                (Slot::Obj { id: ia, actor_queried: qa }, Slot::Obj { id: ib, actor_queried: qb }) => {
                    if (*qa || *qb) && !tw.o.objid_cache_eq {
                        None
                    } else {
                        Some(ia == ib)
                    }
                }
                _ => None,
            };
            match r {
                Some(e) => tw.obs(&format!(" {}", e as i32)),
                None => tw.skip(),
            }
        }
        _ => return false,
    }
    true
}
