#!/bin/bash
# usage: capi/replay.sh <script>  — re-runs one C36 script through the ASan C driver and the Rust twin
S="$1"
OUT=/verif/out/capi
[ -x $OUT/bin/cdriver-asan ] || /verif/bin/check.d/C36 quick x >/dev/null 2>&1
$OUT/target-twin/debug/c36twin "$S" > $OUT/replay.rust.obs 2>$OUT/replay.rust.err
ASAN_OPTIONS=detect_leaks=1:halt_on_error=1:abort_on_error=1 $OUT/bin/cdriver-asan "$S" > $OUT/replay.c.obs 2>$OUT/replay.c.err
rc=$?
echo "C driver exit status: $rc"; tail -20 $OUT/replay.c.err
if diff $OUT/replay.c.obs $OUT/replay.rust.obs > $OUT/replay.diff; then echo "observations identical"; else echo "first differences:"; head -10 $OUT/replay.diff; rc=1; fi
exit $rc
