#!/usr/bin/env python3
"""C36 script generator.  Deterministic from --seed.

usage: gen.py --seed N [--ops N] [--opt name=0|1 ...] > script

The generator tracks which handle (slot) holds what, so that a script never
uses a freed handle and never overwrites a live one ("valid handles only").
Positions are raw numbers that driver and twin both reduce modulo the object's
current length, so every position is within the documented preconditions.
"""
import argparse
import random
import struct
import sys

KEYS = ["a", "b", "c", "k1", "k2", "list", "text", "map", "n", "é", "\U0001F600k", "z" * 45]
WORDS = ["hello", " ", "world", "été", "\U0001F600", "a", "bc", "xyz\n", "0", "The quick brown fox "]
MODES = ["F", "F", "R", "S2", "S3", "B", "W", "U"]
EXPAND = ["none", "before", "after", "both"]
MARKS = ["bold", "em", "link", "cölor"]


def hx(b):
    return "=" + b.hex()


def hs(s):
    return hx(s.encode("utf-8"))


class Gen:
    def __init__(self, seed, nops, opts):
        self.r = random.Random(seed)
        self.nops = nops
        self.opts = opts
        self.out = []
        self.free = list(range(4, 512))
        self.kind = {}          # slot -> kind
        self.docs = []          # doc slots
        self.objs = {}          # doc slot -> list of (obj slot, type)
        self.otype = {}         # obj slot -> type
        self.hashes = {}        # slot -> doc slot it came from
        self.changes = {}       # slot -> doc
        self.bytes_ = {}        # slot -> doc
        self.cursors = {}       # slot -> (doc, obj)
        self.syncs = {}         # (docA, docB) -> (stateA, stateB)
        self.items = []         # ITEMS slots
        self.actors = [0, 1, 2, 3]
        self.next_actor_byte = 0x10
        self.calls = 0

    # ---- helpers ----
    def emit(self, *toks):
        self.out.append(" ".join(str(t) for t in toks))
        self.calls += 1

    def alloc(self, kind):
        i = self.r.randrange(min(len(self.free), 8))
        s = self.free.pop(i)
        self.kind[s] = kind
        return s

    def release(self, s):
        k = self.kind.pop(s, None)
        if k is None:
            return
        self.free.append(s)
        if k == "doc":
            self.docs.remove(s)
            self.objs.pop(s, None)
            for key in [k2 for k2 in self.syncs if s in k2]:
                pass  # sync states stay valid handles on their own
        elif k == "obj":
            self.otype.pop(s, None)
            for d in self.objs:
                self.objs[d] = [(o, t) for (o, t) in self.objs[d] if o != s]
        elif k == "hashes":
            self.hashes.pop(s, None)
        elif k == "changes":
            self.changes.pop(s, None)
        elif k == "bytes":
            self.bytes_.pop(s, None)
        elif k == "cursor":
            self.cursors.pop(s, None)
        elif k == "items":
            self.items.remove(s)
        elif k == "sync":
            for key in [k2 for k2, v in self.syncs.items() if s in v]:
                del self.syncs[key]

    def key(self):
        r = self.r.random()
        if r < 0.02:
            return hx(b"\xff\xfe")          # invalid UTF-8: must be refused cleanly
        if r < 0.03:
            return "="                      # empty key
        return hs(self.r.choice(KEYS))

    def text(self):
        if self.r.random() < 0.02:
            return hx(b"ab\xc3")            # truncated UTF-8
        n = self.r.choice([0, 1, 1, 2, 3, 6])
        s = "".join(self.r.choice(WORDS) for _ in range(n))
        if self.r.random() < 0.03:
            s += "\x00mid"
        return hs(s)

    def val(self):
        t = self.r.choice(["bool", "bytes", "counter", "f64", "int", "null", "str", "ts", "uint"])
        r = self.r
        if t == "bool":
            return "bool:%d" % r.randrange(2)
        if t == "bytes":
            return "bytes:" + hx(bytes(r.randrange(256) for _ in range(r.choice([0, 1, 3, 17, 64, 300]))))
        if t == "counter":
            return "counter:%d" % r.choice([0, 1, -5, 1 << 40, r.randrange(-1000, 1000)])
        if t == "f64":
            f = r.choice([0.0, -0.0, 1.5, float("inf"), float("nan"), r.uniform(-1e9, 1e9)])
            return "f64:%016x" % struct.unpack("<Q", struct.pack("<d", f))[0]
        if t == "int":
            return "int:%d" % r.choice([0, -1, (1 << 63) - 1, -(1 << 63), r.randrange(-99999, 99999)])
        if t == "null":
            return "null:"
        if t == "str":
            return "str:" + self.text()
        if t == "ts":
            return "ts:%d" % r.choice([0, 1700000000000, -1, r.randrange(1 << 41)])
        return "uint:%d" % r.choice([0, (1 << 64) - 1, r.randrange(1 << 32)])

    def pos(self):
        return "MAX" if self.r.random() < 0.1 else str(self.r.randrange(1000))

    def mode(self):
        m = self.r.choice(MODES)
        return m

    def doc(self):
        return self.r.choice(self.docs) if self.docs else None

    def obj(self, d, types=None):
        """an object handle believed to exist in doc d (or R)"""
        c = [(o, t) for (o, t) in self.objs.get(d, []) if types is None or t in types]
        if types is None or "map" in types:
            c.append(("R", "map"))
        if not c:
            return None, None
        if self.r.random() < 0.03:            # occasionally an object from elsewhere
            allo = [(o, t) for o, t in self.otype.items()]
            if allo:
                return self.r.choice(allo)
        return self.r.choice(c)

    def heads(self, d):
        c = [s for s, dd in self.hashes.items() if dd == d]
        if c and self.r.random() < 0.3:
            return self.r.choice(c)
        return "-"

    # ---- op families ----
    def op_mutate(self):
        d = self.doc()
        if d is None:
            return
        r = self.r.random()
        o, t = self.obj(d)
        if t == "map":
            if r < 0.45:
                self.emit("map_put", d, o, self.key(), self.val())
            elif r < 0.70:
                ty = self.r.choice(["map", "list", "list", "text", "text"])
                h = self.alloc("obj")
                self.otype[h] = ty
                self.objs.setdefault(d, []).append((h, ty))
                self.emit("map_put_obj", h, d, o, self.key(), ty)
            elif r < 0.85:
                self.emit("map_inc", d, o, self.key(), self.r.randrange(-10, 10))
            else:
                self.emit("map_del", d, o, self.key())
        elif t == "list":
            if r < 0.45:
                self.emit("list_put", d, o, self.pos(), self.r.choice([1, 1, 1, 0]), self.val())
            elif r < 0.58:
                ty = self.r.choice(["map", "list", "text"])
                h = self.alloc("obj")
                self.otype[h] = ty
                self.objs.setdefault(d, []).append((h, ty))
                self.emit("list_put_obj", h, d, o, self.pos(), self.r.choice([1, 1, 0]), ty)
            elif r < 0.68:
                self.emit("list_inc", d, o, self.pos(), self.r.randrange(-10, 10))
            elif r < 0.80:
                self.emit("list_del", d, o, self.pos())
            else:
                if self.r.random() < 0.5 or not self.items:
                    h = self.alloc("items")
                    self.items.append(h)
                    self.emit("mkitems", h, *[self.val() for _ in range(self.r.randrange(1, 5))])
                v = self.r.choice(self.items)
                if self.opts.get("empty_items") and self.r.random() < 0.15:
                    v = "Z"
                self.emit("splice", d, o, self.pos(), self.r.randrange(-3, 4), v)
        else:  # text
            if r < 0.6:
                self.emit("splice_text", d, o, self.pos(), self.r.randrange(-3, 4), self.text())
            elif r < 0.8:
                # NaN mark values trip a debug assertion inside automerge itself (op_set.rs, QueryNth
                # compared with ==): not a C36 matter, and it would end the script early
                v = self.val()
                while v.startswith("f64:7ff8"):
                    v = self.val()
                self.emit("mark", d, o, self.r.randrange(100), self.r.randrange(100), self.r.choice(EXPAND),
                          hs(self.r.choice(MARKS)), v)
            elif r < 0.9:
                self.emit("unmark", d, o, self.r.randrange(100), self.r.randrange(100), self.r.choice(EXPAND),
                          hs(self.r.choice(MARKS)))
            else:
                self.emit("marks", d, o, self.heads(d))

    def op_read(self):
        d = self.doc()
        if d is None:
            return
        o, t = self.obj(d)
        h = self.heads(d)
        r = self.r.random()
        if t == "map":
            c = self.r.randrange(7)
            if c == 0:
                self.emit("map_get", "-", d, o, self.key(), h)
            elif c == 1:
                self.emit("map_get_all", d, o, self.key(), h, self.mode())
            elif c == 2:
                self.emit("keys", d, o, h, self.mode())
            elif c == 3:
                b = self.r.choice(["-", self.key()])
                e = self.r.choice(["-", self.key()])
                self.emit("map_range", d, o, b, e, h, self.mode())
            elif c == 4:
                self.emit("obj_items", d, o, h, self.mode())
            elif c == 5:
                self.emit("size", d, o, h)
            else:
                # pick up an object id from the document itself
                s = self.alloc("obj")
                k = self.r.choice(["list", "text", "map", "a"])
                self.otype[s] = {"list": "list", "text": "text"}.get(k, "map")
                self.objs.setdefault(d, []).append((s, self.otype[s]))
                self.emit("map_get", s, d, o, hs(k), "-")
        elif t == "list":
            c = self.r.randrange(5)
            if c == 0:
                self.emit("list_get", "-", d, o, self.pos(), h)
            elif c == 1:
                self.emit("list_get_all", d, o, self.pos(), h, self.mode())
            elif c == 2:
                b = self.r.randrange(6)
                e = self.r.choice(["MAX", str(b + self.r.randrange(8)), str(self.r.randrange(4))])
                self.emit("list_range", d, o, b, e, h, self.mode())
            elif c == 3:
                self.emit("obj_items", d, o, h, self.mode())
            else:
                self.emit("size", d, o, h)
        else:
            c = self.r.randrange(4)
            if c == 0:
                self.emit("text", d, o, h)
            elif c == 1:
                self.emit("size", d, o, h)
            elif c == 2:
                self.emit("marks", d, o, h)
            else:
                self.emit("obj_items", d, o, h, self.mode())
        if r < 0.1 and o != "R":
            self.emit("obj_type", d, o)
        if r < 0.04 and o != "R":
            self.emit("obj_info", o)
        if r > 0.93:
            os_ = list(self.otype)
            if len(os_) >= 1:
                self.emit("obj_equal", self.r.choice(os_), self.r.choice(os_))

    def op_tx(self):
        d = self.doc()
        if d is None:
            return
        r = self.r.random()
        msg = self.r.choice(["-", hs("msg"), hs("über " * 12), "="])
        tm = self.r.choice(["-", "0", "1700000000", str(self.r.randrange(1 << 40))])
        if r < 0.55:
            self.emit("commit", d, msg, tm)
        elif r < 0.7:
            self.emit("rollback", d)
        elif r < 0.85:
            self.emit("pending", d)
        else:
            self.emit("empty_change", d, msg, tm)

    def op_history(self):
        d = self.doc()
        if d is None:
            return
        c = self.r.randrange(12)
        if c <= 1:
            h = self.alloc("hashes")
            self.hashes[h] = d
            self.emit("heads", h, d)
        elif c == 2:
            h = self.alloc("changes")
            self.changes[h] = d
            self.emit("changes", h, d, self.heads(d))
        elif c == 3 and len(self.docs) > 1:
            d2 = self.r.choice([x for x in self.docs if x != d])
            h = self.alloc("changes")
            self.changes[h] = d2
            self.emit("changes_added", h, d, d2)
        elif c == 4 and self.hashes:
            hh = self.r.choice(list(self.hashes))
            h = self.alloc("changes")
            self.changes[h] = self.hashes[hh]
            self.emit("change_by_hash", h, d, hh, self.r.randrange(10))
        elif c == 5:
            h = self.alloc("changes")
            self.changes[h] = d
            self.emit("last_local", h, d)
        elif c == 6:
            self.emit("missing_deps", d, self.heads(d))
        elif c == 7 and self.changes:
            ch = self.r.choice(list(self.changes))
            self.emit("apply", d, ch)
            src = self.changes[ch]
            if src in self.objs:
                self.objs.setdefault(d, []).extend(self.objs[src])
        elif c == 8 and self.changes:
            self.emit("change_info", self.r.choice(list(self.changes)), self.mode())
        elif c == 9 and self.changes:
            ch = self.r.choice(list(self.changes))
            if self.r.random() < 0.5:
                self.emit("change_compress", ch)
            else:
                h = self.alloc("changes")
                self.changes[h] = self.changes[ch]
                self.emit("change_rt", h, ch, self.r.randrange(10))
        elif c == 10 and self.bytes_:
            b = self.r.choice(list(self.bytes_))
            h = self.alloc("changes")
            self.changes[h] = self.bytes_[b]
            self.emit("load_changes", h, b)
        elif c == 11 and len(self.docs) > 1:
            d2 = self.r.choice([x for x in self.docs if x != d])
            self.emit("merge", d, d2)
            self.objs.setdefault(d, []).extend(self.objs.get(d2, []))

    def new_actor(self):
        if len(self.actors) < 12 and self.r.random() < 0.5:
            h = self.alloc("actor")
            self.next_actor_byte += 1
            if self.r.random() < 0.5:
                self.emit("actor_bytes", h, hx(bytes([self.next_actor_byte, self.r.randrange(256)])))
            else:
                self.emit("actor_str", h, hs("%02x%02xab" % (self.next_actor_byte, self.r.randrange(256))))
            self.actors.append(h)
            return h
        return self.r.choice(self.actors)

    def op_docs(self):
        c = self.r.randrange(10)
        d = self.doc()
        if c == 0 or d is None:
            if len(self.docs) >= 6:
                return
            a = self.new_actor()
            h = self.alloc("doc")
            self.docs.append(h)
            self.objs[h] = []
            self.emit("create", h, a)
        elif c <= 2 and len(self.docs) < 6:
            a = self.new_actor()
            h = self.alloc("doc")
            self.emit("fork", h, d, a, self.heads(d))
            self.docs.append(h)
            self.objs[h] = list(self.objs.get(d, []))
        elif c == 3 and len(self.docs) < 6:
            h = self.alloc("doc")
            self.emit("clone", h, d)
            self.docs.append(h)
            self.objs[h] = list(self.objs.get(d, []))
            if self.r.random() < 0.8:
                self.emit("set_actor", h, self.new_actor())
        elif c == 4:
            self.emit("get_actor", d)
        elif c <= 6:
            h = self.alloc("bytes")
            self.bytes_[h] = d
            self.emit("save" if c == 5 else "save_inc", h, d)
        elif c == 7 and self.bytes_ and len(self.docs) < 6:
            b = self.r.choice(list(self.bytes_))
            h = self.alloc("doc")
            self.emit("load", h, b, self.new_actor())
            self.docs.append(h)
            self.objs[h] = list(self.objs.get(self.bytes_[b], []))
        elif c == 8 and self.bytes_:
            b = self.r.choice(list(self.bytes_))
            self.emit("load_inc", d, b)
            self.objs.setdefault(d, []).extend(self.objs.get(self.bytes_[b], []))
        elif c == 9 and len(self.docs) > 1:
            self.emit("equal", d, self.r.choice([x for x in self.docs if x != d]))

    def sync_round(self, a, b, rounds):
        key = (a, b)
        if key not in self.syncs:
            sa, sb = self.alloc("sync"), self.alloc("sync")
            self.emit("sync_init", sa)
            self.emit("sync_init", sb)
            self.syncs[key] = (sa, sb)
        sa, sb = self.syncs[key]
        for i in range(rounds):
            src, dst, ss, sd = (a, b, sa, sb) if i % 2 == 0 else (b, a, sb, sa)
            m = self.alloc("msg")
            self.emit("sync_gen", m, src, ss)
            use = m
            if self.r.random() < 0.6:
                m2 = self.alloc("msg")
                self.emit("msg_rt", m2, m)
                use = m2
            if self.r.random() < 0.3:
                self.emit("msg_info", use)
            self.emit("sync_recv", dst, sd, use)
            for x in ([m, use] if use != m else [m]):
                self.emit("free", x)
                self.release(x)
        if self.r.random() < 0.5:
            self.emit("sync_info", sa)
        if self.r.random() < 0.3:
            s2 = self.alloc("sync")
            self.emit("sync_rt", s2, sb)
            self.emit("sync_equal", s2, sb)
            self.emit("sync_info", s2)

    def op_sync(self):
        if len(self.docs) < 2:
            return
        a, b = self.r.sample(self.docs, 2)
        self.sync_round(a, b, self.r.choice([1, 2, 2, 4]))

    def op_cursor(self):
        d = self.doc()
        if d is None:
            return
        c = self.r.randrange(6)
        if c <= 1 or not self.cursors:
            o, t = self.obj(d, ["list", "text"])
            if o is None:
                return
            h = self.alloc("cursor")
            self.cursors[h] = (d, o)
            self.emit("cursor", h, d, o, self.r.randrange(100), self.heads(d))
        else:
            cu = self.r.choice(list(self.cursors))
            cd, co = self.cursors[cu]
            if c == 2 and cd in self.docs and (co == "R" or co in self.otype):
                self.emit("cursor_pos", cd, co, cu, self.heads(cd))
            elif c == 3:
                self.emit("cursor_info", cu)
            elif c == 4:
                h = self.alloc("cursor")
                self.cursors[h] = (cd, co)
                self.emit("cursor_rt", h, cu, self.r.choice(["bytes", "str"]))
                self.emit("cursor_equal", h, cu)
            else:
                self.emit("cursor_equal", cu, self.r.choice(list(self.cursors)))

    def lists(self):
        return [(s, "hashes") for s in self.hashes] + [(s, "changes") for s in self.changes] + \
               [(s, "items") for s in self.items]

    def op_items(self):
        ls = self.lists()
        c = self.r.randrange(9)
        if c == 0 or not ls:
            h = self.alloc("items")
            self.items.append(h)
            self.emit("mkitems", h, *[self.val() for _ in range(self.r.randrange(1, 6))])
            return
        s, k = self.r.choice(ls)
        same = [x for x, kk in ls if kk == k]

        def reg(h, src):
            if k == "hashes":
                self.hashes[h] = self.hashes[src]
            elif k == "changes":
                self.changes[h] = self.changes[src]
            else:
                self.items.append(h)
        if c <= 2:
            self.emit("iter", s, self.mode())
        elif c == 3:
            h = self.alloc(k)
            reg(h, s)
            self.emit("item_result", h, s, self.r.randrange(10))
        elif c == 4:
            h = self.alloc(k)
            reg(h, s)
            self.emit("cat", h, s, self.r.choice(same))
        elif c == 5:
            self.emit("items_equal", s, self.r.choice(same))
        elif c == 6:
            self.emit("item_equal", s, self.r.randrange(10), self.r.choice(same), self.r.randrange(10))
        elif c == 7 and self.hashes:
            src = self.r.choice(list(self.hashes))
            h = self.alloc("hashes")
            self.hashes[h] = self.hashes[src]
            self.emit("hash_item", h, src, self.r.randrange(10))
        else:
            r = self.r.random()
            if r < 0.3:
                self.emit("bad_hash", hx(bytes(self.r.randrange(256) for _ in range(self.r.choice([0, 5, 31, 33])))))
            elif r < 0.5:
                self.emit("str_cmp", self.text(), self.text())
            elif r < 0.6:
                self.emit("misc", self.text())
            elif len(self.actors) > 1:
                a, b = self.r.choice(self.actors), self.r.choice(self.actors)
                self.emit("actor_cmp", a, b)
                self.emit("actor_info", a)

    def op_free(self):
        c = [s for s, k in self.kind.items() if k not in ("actor",)]
        if not c:
            return
        s = self.r.choice(c)
        k = self.kind[s]
        if k == "doc" and len(self.docs) <= 2:
            return
        if k == "actor":
            return
        self.emit("free", s)
        self.release(s)

    # ---- whole script ----
    def run(self):
        for name, v in sorted(self.opts.items()):
            self.out.append("opt %s %d" % (name, v))
        for i in range(4):
            self.kind[i] = "actor"
            self.emit("actor_bytes", i, hx(bytes([i + 1] * (1 + i))))
        for i in range(2):
            h = self.alloc("doc")
            self.docs.append(h)
            self.objs[h] = []
            self.emit("create", h, i)
        fams = [(self.op_mutate, 42), (self.op_read, 18), (self.op_tx, 8), (self.op_history, 10),
                (self.op_docs, 6), (self.op_sync, 3), (self.op_cursor, 4), (self.op_items, 6), (self.op_free, 3)]
        fns = [f for f, _ in fams]
        ws = [w for _, w in fams]
        while self.calls < self.nops:
            if len(self.free) < 40:
                self.op_free()
                continue
            self.r.choices(fns, ws)[0]()
        # coda: every script ends with an items iteration, save/load and a sync session
        for d in list(self.docs):
            self.emit("commit", d, "-", "1")
            self.emit("map_range", d, "R", "-", "-", "-", self.mode())
            self.emit("keys", d, "R", "-", self.mode())
        d = self.docs[0]
        b = self.alloc("bytes")
        self.bytes_[b] = d
        self.emit("save", b, d)
        if len(self.docs) < 8:
            h = self.alloc("doc")
            self.emit("load", h, b, self.r.choice(self.actors))
            self.docs.append(h)
            self.objs[h] = list(self.objs.get(d, []))
            self.emit("equal", d, h)
            self.emit("obj_items", h, "R", "-", self.mode())
        a, bb = self.docs[0], self.docs[1]
        self.sync_round(a, bb, 6)
        self.emit("equal", a, bb)
        hh = self.alloc("hashes")
        self.hashes[hh] = a
        self.emit("heads", hh, a)
        self.emit("iter", hh, "R")
        # frees in a random valid order, then the rest at "end"
        live = [s for s in self.kind]
        self.r.shuffle(live)
        for s in live[: len(live) // 2]:
            self.emit("free", s)
            self.release(s)
        self.emit("end", self.r.choice(["fwd", "rev"]))
        return "\n".join(self.out) + "\n"


def main():
    ap = argparse.ArgumentParser()
    ap.add_argument("--seed", type=int, required=True)
    ap.add_argument("--ops", type=int, default=200)
    ap.add_argument("--opt", action="append", default=[])
    a = ap.parse_args()
    opts = {}
    for o in a.opt:
        k, v = o.split("=")
        opts[k] = int(v)
    sys.stdout.write("# C36 script seed=%d ops=%d\n" % (a.seed, a.ops))
    sys.stdout.write(Gen(a.seed, a.ops, opts).run())


if __name__ == "__main__":
    main()
